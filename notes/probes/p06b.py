import torch, numpy as np, warnings, itertools, logging
warnings.filterwarnings('ignore'); logging.disable(logging.WARNING)
from pytorch_wavelets import DTCWTForward, DTCWTInverse
torch.set_default_dtype(torch.float64)
rng = np.random.RandomState(0)
bad={}; cnt=0
biorts = ['antonini','legall','near_sym_a','near_sym_b']
qshifts = ['qshift_06','qshift_a','qshift_b','qshift_c','qshift_d']
for b,q in [(b,q) for b in biorts for q in qshifts][::4]:
  for (h,w) in [(4,4),(6,8),(5,7),(8,8),(12,10)]:
    for J in (1,2,3):
      for (o,ri) in [(2,-1),(1,2),(5,3)]:
        fwd = DTCWTForward(biort=b,qshift=q,J=J,o_dim=o,ri_dim=ri); inv = DTCWTInverse(biort=b,qshift=q,o_dim=o,ri_dim=ri)
        yl, yh = fwd(torch.zeros(1,1,h,w))
        shapes = [yl.shape]+[t.shape for t in yh]; sizes=[int(np.prod(s)) for s in shapes]; tot=sum(sizes)
        def build(v, req):
            return [p.reshape(s).clone().requires_grad_(r) for p,s,r in zip(torch.split(v,sizes),shapes,req)]
        cols=[]
        for i in range(tot):
            e = torch.zeros(tot); e[i]=1; ts = build(e,[False]*(J+1)); cols.append(inv((ts[0],ts[1:])).reshape(-1))
        S = torch.stack(cols,dim=1)
        for req in itertools.product([False,True],repeat=J+1):
            if not any(req): continue
            ts = build(torch.tensor(rng.randn(tot)), req)
            y = inv((ts[0], ts[1:])); g = torch.tensor(rng.randn(*y.shape))
            want = torch.split(S.T @ g.reshape(-1), sizes)
            inputs=[t for t,r in zip(ts,req) if r]; cnt+=1
            try: grads = torch.autograd.grad(y, inputs, g, allow_unused=True)
            except Exception as e:
                bad.setdefault(('raise',req,type(e).__name__,str(e)[:50]),[]).append((b,q,h,w,J,o,ri)); continue
            gi=iter(grads)
            for k,(r,wp) in enumerate(zip(req,want)):
                if not r: continue
                gk=next(gi)
                if gk is None: bad.setdefault(('none',req,k),[]).append((b,q,h,w,J,o,ri)); continue
                err=(gk.reshape(-1)-wp).abs().max().item()
                if err>1e-9: bad.setdefault(('diff',),[]).append((b,q,h,w,J,o,ri,req,k,round(err,4)))
print(cnt)
for k,v in sorted(bad.items(), key=str): print(k, len(v), v[:10])
