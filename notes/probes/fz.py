import sys, atheris
with atheris.instrument_imports(include=['pytorch_wavelets']):
    import pytorch_wavelets
    from pytorch_wavelets import DTCWTForward, DTCWTInverse
import torch
torch.set_num_threads(1)
n=[0]
def one(data):
    fdp = atheris.FuzzedDataProvider(data)
    o = fdp.ConsumeIntInRange(-6,5); ri = fdp.ConsumeIntInRange(-6,5)
    if o%6==ri%6: return
    J = fdp.ConsumeIntInRange(1,3); h = fdp.ConsumeIntInRange(2,12); w=fdp.ConsumeIntInRange(2,12)
    x = torch.arange(h*w, dtype=torch.float32).reshape(1,1,h,w)
    yl,yh = DTCWTForward(J=J,o_dim=o,ri_dim=ri)(x)
    n[0]+=1
atheris.Setup(sys.argv, one)
atheris.Fuzz()
