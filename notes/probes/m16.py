import torch, numpy as np, warnings, logging
warnings.filterwarnings('ignore'); logging.disable(logging.WARNING)
from pytorch_wavelets import DTCWTForward, DTCWTInverse, DWTForward, DWTInverse, ScatLayer, ScatLayerj2, DWT1DForward, DWT1DInverse
import pytorch_wavelets.dwt.lowlevel as ll
torch.manual_seed(0)
def fl(o): 
    if o is None: return []
    return [o] if isinstance(o,torch.Tensor) else sum([fl(a) for a in o],[])
def views(x):
    big = torch.randn(*(2*s for s in x.shape))
    v1 = big[tuple(slice(None,None,2) for _ in x.shape)]; v1.copy_(x)
    v2 = x.transpose(-1,-2).contiguous().transpose(-1,-2)
    v3 = x.transpose(0,1).contiguous().transpose(0,1)
    out=[('step2',v1),('T',v2),('T01',v3)]
    if x.dim()==4: out.append(('cl', x.contiguous(memory_format=torch.channels_last)))
    out.append(('expand', x[:1].expand(*x.shape)))
    return out
mods = [('dwt',DWTForward(J=2,wave='db3',mode='symmetric')),('dwtper',DWTForward(J=2,wave='db2',mode='periodization')),('dwtzero',DWTForward(J=2,wave='bior2.4',mode='zero')),('dtcwt',DTCWTForward(J=3)),('scat',ScatLayer()),('scat2',ScatLayerj2()),('scatc',ScatLayer(combine_colour=True)),('scat2c',ScatLayerj2(combine_colour=True))]
for name,m in mods:
    x = torch.randn(2,3,21,24)
    for vn,v in views(x):
        try:
            ref = fl(m(v.contiguous())); got = fl(m(v))
            err = max((a-b).abs().max().item() for a,b in zip(ref,got))
            if err>1e-5: print('DIFF',name,vn,err)
        except Exception as e: print('RAISE',name,vn,type(e).__name__,str(e)[:60])
m1 = DWT1DForward(J=2,wave='db3',mode='reflect'); x=torch.randn(2,3,37)
for vn,v in views(x):
    try:
        ref=fl(m1(v.contiguous())); got=fl(m1(v)); err=max((a-b).abs().max().item() for a,b in zip(ref,got))
        if err>1e-5: print('DIFF 1d',vn,err)
    except Exception as e: print('RAISE 1d',vn,type(e).__name__,str(e)[:60])
# inverse with strided pyramid
for fw,iv in [(DWTForward(J=2,wave='db3',mode='symmetric'),DWTInverse(wave='db3',mode='symmetric')),(DTCWTForward(J=3),DTCWTInverse())]:
    x = torch.randn(2,3,24,24); yl,yh = fw(x)
    for i in range(3):
        vl = views(yl)[i][1]; vh=[views(h)[i][1] for h in yh]
        try:
            ref = iv((yl,yh)); got = iv((vl,vh)); 
            if (ref-got).abs().max()>1e-5: print('DIFF inv',i)
        except Exception as e: print('RAISE inv',i,type(e).__name__,str(e)[:60])
print('strided done')
