import torch, numpy as np, pywt, warnings, itertools
warnings.filterwarnings('ignore')
from pytorch_wavelets import DWT1DForward, DWT1DInverse
torch.set_default_dtype(torch.float64)
rng = np.random.RandomState(0)
def shapes_for(n, L, mode, J):
    s=[]; cur=n
    for j in range(J):
        cur = pywt.dwt_coeff_len(cur, L, mode); s.append(cur)
    return s  # highpass lens finest first; yl len = s[-1]
def synth_level(k, wave, mode):
    """true single-level synthesis matrices: y = Slo a + Shi d, a,d length k -> (nout,k)"""
    eye=np.eye(k); z=np.zeros((k,k))
    Slo = pywt.idwt(eye, z, wave, mode=mode, axis=0); Shi = pywt.idwt(z, eye, wave, mode=mode, axis=0)
    return Slo, Shi
def model_back_level(nout, wave, mode):
    """modelled implemented backward of one synthesis level: (dlow, dhigh) = (Wlo, Whi) @ dy"""
    cw = pywt.Wavelet('c', filter_bank=[wave.rec_lo[::-1], wave.rec_hi[::-1], wave.rec_lo, wave.rec_hi])
    eye=np.eye(nout)
    m = mode
    if mode=='periodization' and nout%2==1: raise RuntimeError
    Wlo, Whi = pywt.dwt(eye, cw, mode=m, axis=0)
    return Wlo, Whi
bad=[]; cnt=0; stats={}
for w in ['db1','db2','db3','bior2.4','bior1.3','sym4','rbio3.1']:
    wave=pywt.Wavelet(w); L=wave.dec_len
    for mode in ['zero','symmetric','reflect','periodic','periodization']:
        for n in [L, L+1, 2*L, 2*L+1, 2*L+3, 24, 31]:
            for J in (1,2,3):
                cur=n; short=False
                for j in range(J):
                    if mode=='periodization' and cur+cur%2 < L: short=True
                    cur = pywt.dwt_coeff_len(cur, L, mode)
                if short: continue
                hs = shapes_for(n,L,mode,J); sizes=[hs[-1]]+hs; tot=sum(sizes)
                inv = DWT1DInverse(wave=w, mode=mode)
                def build(v, req):
                    return [p.reshape(1,1,-1).clone().requires_grad_(r) for p,r in zip(torch.split(v,sizes),req)]
                # true and modelled VJP matrices, composed level by level
                # forward chain: cur = yl; for j=J..1: if len(cur)>len(h_j): cur=cur[:-1]; cur = Slo cur + Shi h_j
                # represent current signal as linear map from all inputs: M (len, tot)
                offs = np.cumsum([0]+sizes)
                M = np.zeros((sizes[0], tot)); M[:, :sizes[0]] = np.eye(sizes[0])
                # modelled backward: propagate gradient from output back; need per-level matrices
                levels=[]
                curlen = sizes[0]
                for j in range(J,0,-1):
                    k = sizes[j]
                    crop = curlen > k
                    Slo,Shi = synth_level(k, wave, mode)
                    levels.append((j,k,crop,Slo,Shi))
                    if crop: M = M[:k]
                    E = np.zeros((k, tot)); E[:, offs[j]:offs[j]+k] = np.eye(k)
                    M = Slo@M + Shi@E
                    curlen = M.shape[0]
                S_true = M  # (nout, tot)
                nout = S_true.shape[0]
                # modelled backward matrix Bm (tot, nout): grad wrt all inputs = Bm @ g
                Bm = np.zeros((tot, nout)); Gcur = np.eye(nout)  # gradient wrt current level output as function of g
                ok_model=True
                for (j,k,crop,Slo,Shi) in reversed(levels):
                    try: Wlo,Whi = model_back_level(Gcur.shape[0], wave, mode)
                    except RuntimeError: ok_model=False; break
                    if Wlo.shape[0]!=k: ok_model=False; break
                    Bm[offs[j]:offs[j]+k] = Whi@Gcur
                    Glow = Wlo@Gcur
                    if crop: Glow = np.concatenate([Glow, np.zeros((1,nout))],axis=0)
                    Gcur = Glow
                if ok_model: Bm[:sizes[0]] = Gcur
                # implementation: check forward matrix and backward
                cols=[]
                for i in range(tot):
                    e=torch.zeros(tot); e[i]=1; ts=build(e,[False]*(J+1)); cols.append(inv((ts[0],ts[1:][::1])).reshape(-1))
                # NOTE library order: highs finest first => ts[1] is finest (sizes[1]) OK
                S_impl = torch.stack(cols,dim=1).numpy()
                okS = S_impl.shape==S_true.shape and np.allclose(S_impl,S_true,atol=1e-10)
                ts = build(torch.tensor(rng.randn(tot)), [True]*(J+1))
                y = inv((ts[0],ts[1:]))
                rows=[]
                for i in range(y.numel()):
                    gs = torch.autograd.grad(y.reshape(-1)[i], ts, retain_graph=True)
                    rows.append(torch.cat([g.reshape(-1) for g in gs]))
                G = torch.stack(rows,dim=1).numpy()  # (tot, nout)
                cnt+=1
                true_adj = np.allclose(G, S_true.T, atol=1e-10); model = ok_model and np.allclose(G,Bm,atol=1e-10)
                stats[(mode,true_adj,model)] = stats.get((mode,true_adj,model),0)+1
                if not okS or not (true_adj or model): bad.append((w,mode,n,J,okS,true_adj,model,ok_model))
print(cnt,len(bad),bad[:10]); print(stats)
