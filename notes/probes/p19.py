import torch, numpy as np, pywt, warnings
warnings.filterwarnings('ignore')
import pytorch_wavelets.dwt.lowlevel as ll
torch.set_default_dtype(torch.float64)
rng = np.random.RandomState(0)
bad={}; cnt=0
for mode in ['zero','symmetric','reflect','periodization']:
  for wc, wr in [('db1',None),('db2',None),('db3',None),('bior2.4',None),('sym4',None),('db2','db3'),('db1','bior2.4'),('sym4','db2'),('coif2',None)]:
    c = pywt.Wavelet(wc); r = pywt.Wavelet(wr) if wr else None
    fa = (c.dec_lo,c.dec_hi) if r is None else (c.dec_lo,c.dec_hi,r.dec_lo,r.dec_hi)
    fs = (c.rec_lo,c.rec_hi) if r is None else (c.rec_lo,c.rec_hi,r.rec_lo,r.rec_hi)
    for (h,wd) in [(2,2),(3,4),(5,5),(8,8),(9,12),(16,16),(17,20),(13,32)]:
        x = torch.tensor(rng.randn(2,3,h,wd)); cnt+=1
        try: a = ll.afb2d(x, fa, mode)
        except Exception as e: a = e
        try: b = ll.afb2d_nonsep(x, fa, mode)
        except Exception as e: b = e
        if isinstance(a, Exception) or isinstance(b, Exception):
            if isinstance(a, Exception) != isinstance(b, Exception):
                bad.setdefault(('afb-one-raises', mode, 'sep' if isinstance(a,Exception) else 'nonsep', str(a if isinstance(a,Exception) else b)[:50]),[]).append((wc,wr,h,wd))
            continue
        if a.shape != b.shape or not torch.allclose(a,b,atol=1e-9):
            bad.setdefault(('afb-diff', mode, wr is None),[]).append((wc,wr,h,wd, tuple(a.shape), tuple(b.shape), len(fa[0]) if True else 0))
        # synthesis on random coeffs of that shape
        co = torch.tensor(rng.randn(2,3,4,a.shape[-2],a.shape[-1]))
        try: s1 = ll.sfb2d(co[:,:,0],co[:,:,1],co[:,:,2],co[:,:,3], fs, mode)
        except Exception as e: s1=e
        try: s2 = ll.sfb2d_nonsep(co, fs, mode)
        except Exception as e: s2=e
        if isinstance(s1, Exception) or isinstance(s2, Exception):
            if isinstance(s1, Exception) != isinstance(s2, Exception):
                bad.setdefault(('sfb-one-raises', mode, 'sep' if isinstance(s1,Exception) else 'nonsep', str(s1 if isinstance(s1,Exception) else s2)[:50]),[]).append((wc,wr,h,wd))
            continue
        if s1.shape != s2.shape or not torch.allclose(s1,s2,atol=1e-9):
            bad.setdefault(('sfb-diff', mode, wr is None),[]).append((wc,wr,h,wd, tuple(s1.shape), tuple(s2.shape)))
print(cnt)
for k,v in sorted(bad.items(), key=str): print(k, len(v), v[:6])
