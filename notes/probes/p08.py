import torch, numpy as np, warnings, itertools, logging
import torch.nn.functional as F
warnings.filterwarnings('ignore'); logging.disable(logging.WARNING)
from dtcwt.numpy import Transform2d
from pytorch_wavelets import ScatLayer, ScatLayerj2
torch.set_default_dtype(torch.float64)
rng = np.random.RandomState(0)
bad={}; cnt=0
def ref_fwd(xfm, X, J):
    # X: (N,C,H,W) numpy -> yl (N,C,h,w), yh list of (N,C,6,h,w) complex
    N,C = X.shape[:2]
    yls=[]; yhs=[[] for _ in range(J)]
    for n in range(N):
        for c in range(C):
            p = xfm.forward(X[n,c], nlevels=J)
            yls.append(p.lowpass)
            for j in range(J): yhs[j].append(p.highpasses[j].transpose(2,0,1))
    yl = np.stack(yls).reshape(N,C,*yls[0].shape)
    yh = [np.stack(v).reshape(N,C,*v[0].shape) for v in yhs]
    return yl, yh
def mag(w, b): return np.sqrt(w.real**2+w.imag**2+b**2)-b
def ref_scat1(biort, X, b, colour):
    xfm = Transform2d(biort=biort)
    yl, yh = ref_fwd(xfm, X, 1)
    lp = F.avg_pool2d(torch.tensor(yl),2).numpy()
    if colour:
        w = yh[0]
        M = np.sqrt((w.real**2+w.imag**2).sum(axis=1)+b**2)-b  # (N,6,h,w)
        return np.concatenate([lp, M],axis=1)
    M = mag(yh[0], b).transpose(0,2,1,3,4)  # N,6,C,h,w
    N,_,C,h,w = M.shape
    return np.concatenate([lp, M.reshape(N,6*C,h,w)],axis=1)
for biort in (["near_sym_a","near_sym_b","near_sym_b_bp","antonini","legall"] if __name__=="__main__" else []):
  for b in [0.0, 1e-3, 1e-2, 1.0, 10.0]:
    for colour in (False, True):
      for (h,w) in [(2,2),(4,6),(8,8),(10,14),(16,12),(5,7),(9,8)]:
        C = 3 if colour else 2
        for kind in ['randn','zero','big','sparse']:
            X = rng.randn(2,C,h,w)
            if kind=='zero': X[:]=0
            if kind=='big': X*=1e4
            if kind=='sparse': X = X*(rng.rand(*X.shape)<0.1)
            Xe = X
            if h%2: Xe = np.concatenate([Xe, Xe[:,:,-1:]],axis=2)
            if w%2: Xe = np.concatenate([Xe, Xe[:,:,:,-1:]],axis=3)
            cnt+=1
            try:
                ref = ref_scat1(biort, Xe, b, colour)
            except Exception as e:
                bad.setdefault(('ref-raise',biort,str(e)[:40]),[]).append((b,colour,h,w)); continue
            try:
                z = ScatLayer(biort=biort, magbias=b, combine_colour=colour)(torch.tensor(X)).numpy()
            except Exception as e:
                bad.setdefault(('raise',type(e).__name__,str(e)[:40]),[]).append((biort,b,colour,h,w)); continue
            scale = max(1, np.abs(X).max())
            if z.shape!=ref.shape or not np.allclose(z, ref, atol=1e-9*scale):
                bad.setdefault(('diff',kind),[]).append((biort,b,colour,h,w, z.shape, ref.shape, np.abs(z-ref).max() if z.shape==ref.shape else None))
            nC = C
            if (z[:, nC:] < 0).any(): bad.setdefault(('neg',kind),[]).append((biort,b,colour,h,w, z[:,nC:].min()))
if __name__=="__main__": print(cnt)
if __name__=="__main__":
    for k,v in sorted(bad.items(), key=str): print(k, len(v), v[:6])
