import torch, numpy as np, warnings, itertools, sys
warnings.filterwarnings('ignore')
sys.path.insert(0,'/repo/tests')
from dtcwt.numpy import Transform2d, Pyramid
from pytorch_wavelets import DTCWTForward, DTCWTInverse
torch.set_default_dtype(torch.float64)
rng = np.random.RandomState(0)
biorts = ['antonini','legall','near_sym_a','near_sym_b']
qshifts = ['qshift_06','qshift_a','qshift_b','qshift_c','qshift_d']
bad = {}; cnt=0
for b in biorts:
  for q in qshifts:
    ref = Transform2d(b, q)
    for (h,w) in [(2,2),(2,3),(3,5),(4,4),(5,8),(6,6),(7,9),(8,8),(10,12),(12,18),(16,16),(17,23),(20,36),(33,34),(48,50)]:
      for J in (1,2,3,4):
        x = rng.randn(h,w)
        try:
            p = ref.forward(x, nlevels=J)
        except Exception as e:
            bad.setdefault(('ref-raise', type(e).__name__, str(e)[:40]), []).append((b,q,h,w,J)); continue
        cnt+=1
        try:
            yl, yh = DTCWTForward(biort=b, qshift=q, J=J)(torch.tensor(x)[None,None])
        except Exception as e:
            bad.setdefault(('raise', type(e).__name__, str(e)[:60]), []).append((b,q,h,w,J)); continue
        ok = yl.shape[2:] == p.lowpass.shape and np.allclose(yl[0,0].numpy(), p.lowpass, atol=1e-9)
        for j in range(J):
            r = p.highpasses[j].transpose(2,0,1)
            o = yh[j][0,0].numpy()
            ok = ok and o.shape[:3]==r.shape and np.allclose(o[...,0], r.real, atol=1e-9) and np.allclose(o[...,1], r.imag, atol=1e-9)
        if not ok: bad.setdefault(('diff',), []).append((b,q,h,w,J))
        # PR
        try:
            rec = DTCWTInverse(biort=b, qshift=q)((yl, yh))
            rr = ref.inverse(p)
            e = (rec[0,0,:h,:w]-torch.tensor(x)).abs().max().item()
            if e > 1e-8: bad.setdefault(('pr',), []).append((b,q,h,w,J,e, np.abs(rr[:h,:w]-x).max()))
            if rec.shape[2:] != rr.shape: bad.setdefault(('pr-shape',), []).append((b,q,h,w,J,rec.shape, rr.shape))
        except Exception as e:
            bad.setdefault(('inv-raise', type(e).__name__, str(e)[:60]), []).append((b,q,h,w,J))
print(cnt)
for k,v in sorted(bad.items(), key=str):
    print(k, len(v), v[:8])
