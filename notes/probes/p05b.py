import torch, numpy as np, pywt, warnings, itertools
warnings.filterwarnings('ignore')
from pytorch_wavelets import DWTForward, DWTInverse, DWT1DForward, DWT1DInverse
torch.set_default_dtype(torch.float64)
rng = np.random.RandomState(0)
modes = ['zero','symmetric','reflect','periodic','periodization']
bad = {}
# inverse: function of (yl, yh...) linear. True Jacobian by autograd-free finite basis; compare with backward
for w in ['db1','db2','db3','bior2.4']:
    L = pywt.Wavelet(w).dec_len
    for mode in modes:
        for n in [8,9,12,13,16,17,24]:
            for J in (1,2):
                fwd = DWT1DForward(J=J, wave=w, mode=mode); inv = DWT1DInverse(wave=w, mode=mode)
                try: yl, yh = fwd(torch.zeros(1,1,n))
                except Exception: continue
                shapes = [yl.shape] + [h.shape for h in yh]
                sizes = [int(np.prod(s)) for s in shapes]
                def unflat(v, req):
                    parts = torch.split(v, sizes)
                    ts = [p.reshape(s).clone().requires_grad_(r) for p,s,r in zip(parts, shapes, req)]
                    return ts
                tot = sum(sizes)
                # true matrix
                cols = []
                for i in range(tot):
                    e = torch.zeros(tot); e[i]=1
                    ts = unflat(e, [False]*(J+1))
                    cols.append(inv((ts[0], ts[1:])).reshape(-1))
                S = torch.stack(cols, dim=1) # (nout, tot)
                nout = S.shape[0]
                for req in itertools.product([False, True], repeat=J+1):
                    if not any(req): continue
                    ts = unflat(torch.tensor(rng.randn(tot)), req)
                    y = inv((ts[0], ts[1:]))
                    g = torch.tensor(rng.randn(*y.shape))
                    want = (S.T @ g.reshape(-1))
                    wparts = torch.split(want, sizes)
                    inputs = [t for t,r in zip(ts,req) if r]
                    try:
                        grads = torch.autograd.grad(y, inputs, g, allow_unused=True)
                    except Exception as e:
                        bad.setdefault(('raise', mode, req, type(e).__name__, str(e)[:50]), []).append((w,n,J)); continue
                    gi = iter(grads)
                    for k,(r,wp,s) in enumerate(zip(req,wparts,shapes)):
                        if not r: continue
                        gk = next(gi)
                        if gk is None:
                            bad.setdefault(('none-grad', mode if mode!='zero' else 'zero', req, k), []).append((w,n,J)); continue
                        err = (gk.reshape(-1)-wp).abs().max().item()
                        if err > 1e-9:
                            bad.setdefault(('diff', mode, 'odd' if n%2 else 'even'), []).append((w,n,J,req,k,round(err,3)))
for k,v in sorted(bad.items(), key=str):
    print(k, len(v), v[:5])
