import torch, numpy as np, pywt, warnings
warnings.filterwarnings('ignore')
from pytorch_wavelets import DWT1DForward, DWT1DInverse, DWTForward, DWTInverse
torch.set_default_dtype(torch.float64)
bad={}; cnt=0
orth = [w for w in pywt.wavelist(kind='discrete') if pywt.Wavelet(w).orthogonal]
print(len(orth), orth[:5], [w for w in pywt.wavelist(kind='discrete') if not pywt.Wavelet(w).orthogonal][:50:7])
for w in orth:
    L = pywt.Wavelet(w).dec_len
    for J in (1,2,3):
        m0 = -(-L//2)  # need n/2^(J-1) >= L  and even  => n = m*2^J with m*2 >= L
        for m in (m0, m0+1):
            n = m*2**J
            if n > 400: continue
            fwd = DWT1DForward(J=J, wave=w, mode='periodization'); inv = DWT1DInverse(wave=w, mode='periodization')
            eye = torch.eye(n).reshape(n,1,n)
            yl,yh = fwd(eye)
            A = torch.cat([yl.reshape(n,-1)]+[h.reshape(n,-1) for h in yh],dim=1).T  # (M,n)
            cnt+=1
            if A.shape[0]!=n: bad.setdefault('notsquare',[]).append((w,J,n,A.shape)); continue
            e1 = (A.T@A - torch.eye(n)).abs().max().item()
            if e1>1e-7: bad.setdefault('AtA',[]).append((w,J,n,e1))
            # inverse = transpose
            sizes=[yl.shape[-1]]+[h.shape[-1] for h in yh]
            I = torch.eye(n)
            parts = torch.split(I, sizes, dim=1)
            S = inv((parts[0].reshape(n,1,-1), [p.reshape(n,1,-1) for p in parts[1:]])).reshape(n,n).T  # columns = S e_i
            e2 = (S - A.T).abs().max().item()
            if e2>1e-7: bad.setdefault('S-At',[]).append((w,J,n,e2))
print(cnt)
for k,v in bad.items(): print(k, len(v), v[:10])
