import torch, warnings, logging
warnings.filterwarnings('ignore'); logging.disable(logging.WARNING)
from pytorch_wavelets import DTCWTForward
def shapes(H,W,J):
    """(lowpass shape, [highpass (rows,cols) per level], padded flags) from first principles"""
    r, c = H + H%2, W + W%2
    hs=[(r//2, c//2)]; low=(r,c); pads=[(False,False)]
    for j in range(1,J):
        pr, pc = low[0]%4!=0, low[1]%4!=0
        r, c = low[0]+2*pr, low[1]+2*pc
        hs.append((r//4, c//4)); low=(r//2, c//2); pads.append((pr,pc))
    return low, hs, pads
bad=0; n=0
for H in range(2,45):
    for W in range(2,45,3):
        for J in range(1,6):
            yl,yh = DTCWTForward(J=J)(torch.zeros(1,1,H,W))
            low,hs,_ = shapes(H,W,J); n+=1
            if tuple(yl.shape[2:])!=low or any(tuple(y.shape[3:5])!=h for y,h in zip(yh,hs)): bad+=1; print(H,W,J,yl.shape,low,[y.shape for y in yh],hs)
print(n,bad)
