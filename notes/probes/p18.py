import numpy as np, os, glob
import pytorch_wavelets.dtcwt.coeffs as pc
import dtcwt.coeffs as dc
d = os.path.dirname(pc.__file__)+'/data'
for f in sorted(glob.glob(d+'/*.npz')):
    name = os.path.basename(f)[:-4]
    z = np.load(f); keys = sorted(z.keys())
    rf = os.path.join(os.path.dirname(dc.__file__),'data',name+'.npz')
    same = None
    if os.path.exists(rf):
        r = np.load(rf); same = sorted(r.keys())==keys and all(np.array_equal(z[k], r[k]) for k in keys)
    print(name, keys, [z[k].shape for k in keys][:4], 'ref-equal:', same)
print(sorted(os.listdir(os.path.join(os.path.dirname(dc.__file__),'data'))))
# identities
def sym(h): h=h.ravel(); return np.allclose(h, h[::-1])
for name in ['antonini','legall','near_sym_a','near_sym_b','near_sym_b_bp','farras','near_sym_a2']:
    try:
        t = pc.biort(name)
    except Exception as e:
        print(name, 'biort raise', type(e).__name__, e); 
        try: t = pc.level1(name); print('  level1 ok', len(t))
        except Exception as e2: print('  level1 raise', e2)
        continue
    h0o,g0o,h1o,g1o = [a.ravel() for a in t[:4]]
    # PR: h0*g0 + h1*g1 = 2 delta (even-indexed)
    p = np.convolve(h0o,g0o); q = np.convolve(h1o,g1o)
    # align centers
    n = max(len(p),len(q)); P = np.zeros(n); Q=np.zeros(n)
    P[(n-len(p))//2:(n-len(p))//2+len(p)] = p; Q[(n-len(q))//2:(n-len(q))//2+len(q)] = q
    s = P+Q
    print(name, 'sym', sym(h0o),sym(g0o),sym(h1o),sym(g1o), 'len', len(h0o),len(g0o),len(h1o),len(g1o), 'PR resid', np.abs(s - np.eye(1,n,n//2).ravel()*s[n//2]).max(), 'center', s[n//2], [sym(a) for a in t[4:]])
for name in ['qshift_06','qshift_a','qshift_b','qshift_c','qshift_d','qshift_b_bp','qshift_32']:
    try: t = pc.qshift(name)
    except Exception as e: print(name,'raise',e); continue
    h0a,h0b,g0a,g0b,h1a,h1b,g1a,g1b = [a.ravel() for a in t[:8]]
    print(name, len(h0a), 'b=rev(a):', np.allclose(h0b,h0a[::-1]), np.allclose(h1b,h1a[::-1]), 'g=rev(h):', np.allclose(g0a,h0a[::-1]), np.allclose(g1a,h1a[::-1]), np.allclose(g0b,h0b[::-1]), np.allclose(g1b, h1b[::-1]),
          'orthonormal:', abs(h0a@h0a-1)<1e-10, abs(h1a@h1a-1)<1e-10, [abs(h0a[2*k:]@h0a[:len(h0a)-2*k])<1e-10 for k in range(1,len(h0a)//2)].count(False), abs(h0a@h1a)<1e-10,
          [ (np.allclose(t[i+1].ravel(), t[i].ravel()[::-1])) for i in range(8,len(t),2)])
