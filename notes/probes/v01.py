import torch, numpy as np, pywt, warnings
warnings.filterwarnings('ignore')
from pytorch_wavelets import DWT1DForward, DWTForward
torch.set_default_dtype(torch.float64)
rng=np.random.RandomState(1)
def may_raise(n, L, J):
    cur=n
    for j in range(J):
        if (cur%2==0 and cur<=L-2) or (cur%2==1 and cur<=L-1): return True
        cur = pywt.dwt_coeff_len(cur, L, 'reflect')
    return False
tab={}
for w in pywt.wavelist(kind='discrete'):
    L=pywt.Wavelet(w).dec_len
    for n in list(range(2,2*L+3)) if L<=20 else list(range(2,12))+list(range(L-3,L+4))+[2*L,2*L+1]:
        for J in (1,2,3):
            pred = may_raise(n,L,J)
            try:
                DWT1DForward(J=J,wave=w,mode='reflect')(torch.tensor(rng.randn(1,1,n))); r=False
            except RuntimeError: r=True
            tab[(pred,r)] = tab.get((pred,r),0)+1
            if pred!=r and tab[(pred,r)]<4: print('mismatch',w,L,n,J,pred,r)
print(tab)
# 2D
tab={}
for w in ['db2','db3','bior2.4','sym5']:
    L=pywt.Wavelet(w).dec_len
    for h in range(2,2*L+2):
        for wd in (h, 2*L+1, 3):
            for J in (1,2):
                pred = may_raise(h,L,J) or may_raise(wd,L,J)
                try: DWTForward(J=J,wave=w,mode='reflect')(torch.tensor(rng.randn(1,1,h,wd))); r=False
                except RuntimeError: r=True
                tab[(pred,r)] = tab.get((pred,r),0)+1
print(tab)
