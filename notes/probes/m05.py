import torch, numpy as np, pywt, warnings, itertools
warnings.filterwarnings('ignore')
from pytorch_wavelets import DWT1DForward, DWT1DInverse
torch.set_default_dtype(torch.float64)
rng = np.random.RandomState(0)
def pywt_level_matrix(n, wave, mode):
    """single-level analysis matrix (2*outlen, n) via pywt: rows = [cA; cD]"""
    eye = np.eye(n)
    cA, cD = pywt.dwt(eye, wave, mode=mode, axis=0)   # columns are basis responses
    return cA, cD   # (out, n) each
def model_fwd_backward(n, w, mode, J):
    """matrix B (M, n) such that implemented backward(g) = B^T g, outputs ordered [yl, yh1..yhJ]; also true matrix"""
    wave = pywt.Wavelet(w)
    Tprev = np.eye(n); Bprev = np.eye(n)   # maps input -> current lowpass (true, modelled)
    highs_T=[]; highs_B=[]
    cur = n
    for j in range(J):
        cA, cD = pywt_level_matrix(cur, wave, mode)
        if mode in ('symmetric','reflect','periodic'):
            zA, zD = pywt_level_matrix(cur, wave, 'zero')
        elif mode=='periodization' and cur%2==1:
            a, d = pywt_level_matrix(cur+1, wave, 'periodization'); zA, zD = a[:, :cur], d[:, :cur]
        else:
            zA, zD = cA, cD
        highs_T.append(cD@Tprev); highs_B.append(zD@Bprev)
        Tprev = cA@Tprev; Bprev = zA@Bprev
        cur = cA.shape[0]
    T = np.concatenate([Tprev]+highs_T, axis=0); B = np.concatenate([Bprev]+highs_B, axis=0)
    return T, B
bad=[]; cnt=0; stats={}
for w in ['db1','db2','db3','bior2.4','bior1.3','sym4','rbio3.1']:
    L = pywt.Wavelet(w).dec_len
    for mode in ['zero','symmetric','reflect','periodic','periodization']:
        for n in [L, L+1, 2*L, 2*L+1, 2*L+3, 24, 31]:
            for J in (1,2,3):
                # skip D1 domain
                cur=n; short=False
                for j in range(J):
                    if mode=='periodization' and cur+cur%2 < L: short=True
                    cur = pywt.dwt_coeff_len(cur, L, mode)
                if short: continue
                m = DWT1DForward(J=J, wave=w, mode=mode)
                try:
                    eye = torch.eye(n).reshape(n,1,n); yl,yh = m(eye)
                except Exception as e: continue
                A = torch.cat([yl.reshape(n,-1)]+[h.reshape(n,-1) for h in yh],dim=1).T.numpy()
                T,B = model_fwd_backward(n,w,mode,J)
                x = torch.zeros(1,1,n,requires_grad=True); yl,yh=m(x); f=torch.cat([yl.reshape(-1)]+[h.reshape(-1) for h in yh])
                G = torch.stack([torch.autograd.grad(f[i],x,retain_graph=True)[0].reshape(-1) for i in range(f.numel())]).numpy()
                cnt+=1
                okA = np.allclose(A,T,atol=1e-10)
                true_adj = np.allclose(G,A,atol=1e-10); model = np.allclose(G,B,atol=1e-10)
                stats[(mode, true_adj, model)] = stats.get((mode,true_adj,model),0)+1
                if not okA or not (true_adj or model): bad.append((w,mode,n,J,okA,true_adj,model))
print(cnt, len(bad), bad[:10]); print(stats)
