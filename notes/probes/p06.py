import torch, numpy as np, warnings, itertools, logging
warnings.filterwarnings('ignore'); logging.disable(logging.WARNING)
from pytorch_wavelets import DTCWTForward, DTCWTInverse
torch.set_default_dtype(torch.float64)
rng = np.random.RandomState(0)
bad={}; cnt=0
def flat(yl, yh):
    ls = yl if isinstance(yl,(list,tuple)) else [yl]
    return torch.cat([t.reshape(-1) for t in list(ls)+list(yh) if t.dim()>0 and t.numel()>0])
biorts = ['antonini','legall','near_sym_a','near_sym_b']
qshifts = ['qshift_06','qshift_a','qshift_b','qshift_c','qshift_d']
for b,q in [(b,q) for b in biorts for q in qshifts][::3]:
  for (h,w) in [(4,4),(6,8),(5,7),(8,8),(12,10)]:
    for J in (1,2,3):
      for (o,ri) in [(2,-1),(1,2),(4,5),(0,3)]:
        for skip in [False, [True]+[False]*(J-1), [False]*(J-1)+[True]]:
          for inc in [False, True]:
            m = DTCWTForward(biort=b,qshift=q,J=J,o_dim=o,ri_dim=ri,skip_hps=skip,include_scale=inc)
            n = h*w
            eye = torch.eye(n).reshape(n,1,h,w)
            yl,yh = m(eye)
            # batch dim: need per-sample flatten
            ls = yl if isinstance(yl,(list,tuple)) else [yl]
            parts = []
            for t in list(ls)+list(yh):
                if t.dim()==0: continue
                # batch dim location: o/ri may be before batch
                parts.append(t)
            # simpler: compute columns one at a time
            cols=[]
            for i in range(n):
                yl,yh = m(eye[i:i+1]); cols.append(flat(yl,yh))
            A = torch.stack(cols,dim=1)
            x = torch.zeros(1,1,h,w, requires_grad=True)
            yl,yh = m(x); f = flat(yl,yh)
            rows=[]
            for i in range(f.numel()):
                g, = torch.autograd.grad(f[i], x, retain_graph=True); rows.append(g.reshape(-1))
            B = torch.stack(rows)
            err = (A-B).abs().max().item(); cnt+=1
            if err>1e-9: bad.setdefault(('fwd-grad', ),[]).append((b,q,h,w,J,o,ri,skip,inc,round(err,4)))
print(cnt)
for k,v in sorted(bad.items(), key=str): print(k, len(v), v[:10])
