import torch, numpy as np, warnings, logging, sys, hashlib
warnings.filterwarnings('ignore'); logging.disable(logging.WARNING)
from pytorch_wavelets import DWTForward, DTCWTForward, ScatLayerj2, DWT1DForward, DWTInverse
order = sys.argv[1]
g = torch.Generator().manual_seed(5)
x = torch.randn(2,3,33,40, generator=g)
mods = {'a': lambda: DWTForward(J=2,wave='db3',mode='symmetric'), 'b': lambda: DTCWTForward(J=3), 'c': lambda: ScatLayerj2(), 'd': lambda: DWTForward(J=3,wave='bior2.4',mode='periodization')}
def flat(o):
    if isinstance(o, torch.Tensor): return [o]
    r=[]
    for a in o: r+=flat(a)
    return r
out={}
for k in order:
    ys = flat(mods[k]()(x))
    out[k]=hashlib.sha1(b''.join(y.numpy().tobytes() for y in ys)).hexdigest()[:12]
print(sorted(out.items()))
