import torch, numpy as np, warnings, itertools, sys, logging
warnings.filterwarnings('ignore'); logging.disable(logging.WARNING)
from dtcwt.numpy import Transform2d, Pyramid
from pytorch_wavelets import DTCWTForward, DTCWTInverse
torch.set_default_dtype(torch.float64)
rng = np.random.RandomState(0)
bad = {}; cnt=0
for b,q in [('near_sym_a','qshift_a'),('antonini','qshift_06'),('legall','qshift_c'),('near_sym_b','qshift_d'),('near_sym_b','qshift_b')]:
    ref = Transform2d(b, q)
    for (h,w) in [(2,2),(3,5),(4,4),(6,6),(7,9),(8,8),(10,12),(12,18),(16,16),(17,23),(20,36),(33,34)]:
      for J in (1,2,3):
        p = ref.forward(rng.randn(h,w), nlevels=J)
        lo = rng.randn(*p.lowpass.shape); hs = [rng.randn(*hp.shape)+1j*rng.randn(*hp.shape) for hp in p.highpasses]
        rr = ref.inverse(Pyramid(lo, hs))
        tl = torch.tensor(lo)[None,None]
        th = [torch.tensor(np.stack([hp.real, hp.imag], -1).transpose(2,0,1,3))[None,None] for hp in hs]
        cnt+=1
        inv = DTCWTInverse(biort=b, qshift=q)
        try:
            rec = inv((tl, th))
            if rec.shape[2:] != rr.shape or not np.allclose(rec[0,0].numpy(), rr, atol=1e-9):
                bad.setdefault(('diff',), []).append((b,q,h,w,J))
        except Exception as e:
            bad.setdefault(('raise', type(e).__name__, str(e)[:60]), []).append((b,q,h,w,J)); continue
        # None handling
        for mask in itertools.product([0,1,2,3], repeat=J):  # 0 keep,1 None,2 zero-dim,3 tensor([])
          for lowmode in (0,1,2,3):
            if not any(mask) and lowmode==0: continue
            if all(m!=0 for m in mask) and lowmode!=0: continue
            th_z = [t if m==0 else torch.zeros_like(t) for t,m in zip(th,mask)]
            tl_z = tl if lowmode==0 else torch.zeros_like(tl)
            want = inv((tl_z, th_z))
            sub = {1: None, 2: torch.zeros([]), 3: torch.tensor([])}
            th_n = [t if m==0 else sub[m] for t,m in zip(th,mask)]
            tl_n = tl if lowmode==0 else sub[lowmode]
            kinds = tuple(sorted(set(m for m in mask if m)))
            try:
                got = inv((tl_n, th_n))
                if got.shape != want.shape or not torch.allclose(got, want, atol=1e-9):
                    bad.setdefault(('none-diff', 'low%d'%lowmode, kinds), []).append((b,q,h,w,J,mask, got.shape, want.shape))
            except Exception as e:
                bad.setdefault(('none-raise', 'low%d'%lowmode, kinds, type(e).__name__, str(e)[:50]), []).append((b,q,h,w,J,mask))
print(cnt)
for k,v in sorted(bad.items(), key=str):
    print(k, len(v), v[:4])
