import torch, numpy as np, pywt, warnings
warnings.filterwarnings('ignore')
from pytorch_wavelets import DWT1DForward, DWT1DInverse
torch.set_default_dtype(torch.float64)
rng=np.random.RandomState(0)
tab={}
for w in pywt.wavelist(kind='discrete'):
    L=pywt.Wavelet(w).dec_len
    for k in range(1, L+3):
        a=rng.randn(1,1,k); d=rng.randn(1,1,k)
        rec = DWT1DInverse(wave=w,mode='periodization')((torch.tensor(a),[torch.tensor(d)])).numpy()
        ref = pywt.idwt(a,d,w,'periodization')
        eq = rec.shape==ref.shape and np.allclose(rec,ref,atol=1e-9)
        pred = 2*k < L-2
        tab[(pred,eq)] = tab.get((pred,eq),0)+1
        if not pred and not eq: print('outside-pred diff', w, L, k)
print(tab)
