import torch, numpy as np, warnings, itertools, logging
import torch.nn.functional as F
warnings.filterwarnings('ignore'); logging.disable(logging.WARNING)
from dtcwt.numpy import Transform2d
from pytorch_wavelets import ScatLayer, ScatLayerj2
from p08 import ref_fwd, mag
torch.set_default_dtype(torch.float64)
rng = np.random.RandomState(0)
bad={}; cnt=0
def pool(a): return F.avg_pool2d(torch.tensor(a),2).numpy()
def ref_scat2(biort, qshift, X, b, colour):
    xfm = Transform2d(biort=biort, qshift=qshift)
    N,C,H,W = X.shape
    yl, yh = ref_fwd(xfm, X, 2)
    S0 = pool(yl)
    if colour:
        M1 = np.sqrt((yh[0].real**2+yh[0].imag**2).sum(axis=1)+b**2)-b  # N,6,H/2,W/2
        M2 = np.sqrt((yh[1].real**2+yh[1].imag**2).sum(axis=1)+b**2)-b  # N,6,H/4,W/4
        yl1, yh1 = ref_fwd(xfm, M1, 1)
        S1_1 = pool(yl1)   # N,6,H/4
        S2_1 = mag(yh1[0], b).transpose(0,2,1,3,4).reshape(N,36,H//4,W//4)
        return np.concatenate([S0, S1_1, M2, S2_1],axis=1)
    M1 = mag(yh[0],b).transpose(0,2,1,3,4)  # N,6,C,h,w
    S1_2 = mag(yh[1],b).transpose(0,2,1,3,4)
    M1 = M1.reshape(N,6*C,H//2,W//2)
    yl1,yh1 = ref_fwd(xfm, M1, 1)
    S1_1 = pool(yl1).reshape(N,6,C,H//4,W//4)
    S2_1 = mag(yh1[0],b).transpose(0,2,1,3,4).reshape(N,36,C,H//4,W//4)
    z = np.concatenate([S0[:,None],S1_1,S1_2,S2_1],axis=1)
    return z.reshape(N,49*C,H//4,W//4)
for biort,qshift in [('near_sym_a','qshift_a'),('near_sym_b','qshift_b'),('near_sym_b_bp','qshift_b_bp'),('antonini','qshift_06'),('legall','qshift_d'),('near_sym_a','qshift_c')]:
  for b in [0.0, 1e-3, 1e-2, 1.0]:
    for colour in (False, True):
      for (h,w) in [(8,8),(16,8),(8,24),(32,16)]:
        C = 3 if colour else 2
        for kind in ['randn','zero','big','sparse']:
            X = rng.randn(2,C,h,w)
            if kind=='zero': X[:]=0
            if kind=='big': X*=1e4
            if kind=='sparse': X = X*(rng.rand(*X.shape)<0.1)
            cnt+=1
            ref = ref_scat2(biort,qshift,X,b,colour)
            try: z = ScatLayerj2(biort=biort,qshift=qshift,magbias=b,combine_colour=colour)(torch.tensor(X)).numpy()
            except Exception as e:
                bad.setdefault(('raise',type(e).__name__,str(e)[:40]),[]).append((biort,qshift,b,colour,h,w)); continue
            scale = max(1,np.abs(X).max())
            if z.shape!=ref.shape or not np.allclose(z,ref,atol=1e-9*scale):
                bad.setdefault(('diff',kind),[]).append((biort,qshift,b,colour,h,w,z.shape,ref.shape))
# odd shapes
for (h,w) in [(3,5),(7,9),(10,12),(17,31),(24,25),(33,40)]:
    for colour in (False,True):
        C = 3 if colour else 2
        z = ScatLayerj2(combine_colour=colour)(torch.tensor(rng.randn(2,C,h,w)))
        exp = (2, (49*C if not colour else 3+6+6+36), -(-h//8)*2, -(-w//8)*2)
        if tuple(z.shape)!=exp: bad.setdefault(('shape',),[]).append((h,w,colour,tuple(z.shape),exp))
print(cnt)
for k,v in sorted(bad.items(), key=str): print(k, len(v), v[:6])
