import torch, numpy as np, pywt, warnings, logging
warnings.filterwarnings('ignore'); logging.disable(logging.WARNING)
from pytorch_wavelets import DWT1DForward, DWT1DInverse, DWTForward, DWTInverse, DTCWTForward, DTCWTInverse, ScatLayer, ScatLayerj2
torch.manual_seed(0)
eps32 = np.finfo(np.float32).eps
def flat(out):
    if isinstance(out, torch.Tensor): return [out]
    r=[]
    for o in out:
        if o is None: continue
        r += flat(o)
    return r
def run(mk, xs, name):
    m32 = mk(); m64 = mk().double()
    worst=0
    for x in xs:
        y32 = flat(m32(x.float())); y64 = flat(m64(x.double()))
        assert all(a.dtype==torch.float32 for a in y32), name
        assert all(a.dtype==torch.float64 for a in y64), name
        err = max((a.double()-b).abs().max().item() for a,b in zip(y32,y64) if a.numel())
        outmax = max(b.abs().max().item() for b in y64 if b.numel())
        worst = max(worst, err/(eps32*max(outmax,1e-30)))
    return worst
def inputs(shape):
    x1 = torch.randn(*shape, dtype=torch.float64)
    x2 = x1*1e6
    x3 = torch.randn(*shape, dtype=torch.float64)*torch.exp(8*torch.randn(*shape,dtype=torch.float64))
    x4 = torch.ones(*shape, dtype=torch.float64)*1e3 + 1e-3*torch.randn(*shape,dtype=torch.float64)
    return [x1,x2,x3,x4]
for w in ['db1','db4','db20','db38','sym20','coif17','bior6.8','rbio3.9','dmey']:
    for mode in ['zero','symmetric','periodization']:
        for J in (1,3,5):
            r = run(lambda: DWT1DForward(J=J,wave=w,mode=mode), inputs((2,2,200)), 'dwt1d')
            r2 = run(lambda: DWTForward(J=min(J,3),wave=w,mode=mode), inputs((1,2,64,72)), 'dwt2d')
            if max(r,r2)>8: print('DWT', w, mode, J, 'err/(eps*outmax)=', round(r,2), round(r2,2))
for b in ['antonini','legall','near_sym_a','near_sym_b']:
    for q in ['qshift_06','qshift_a','qshift_b','qshift_c','qshift_d']:
        r = run(lambda: DTCWTForward(biort=b,qshift=q,J=4), inputs((1,2,64,48)),'dtcwt')
        if r>8: print('DTCWT', b,q, round(r,2))
for bi,q in [('near_sym_a','qshift_a'),('near_sym_b','qshift_b'),('near_sym_b_bp','qshift_b_bp')]:
    for mb in [1e-3,1e-2,1.0]:
        r = run(lambda: ScatLayer(biort=bi,magbias=mb), inputs((1,3,32,32)),'scat')
        r2 = run(lambda: ScatLayerj2(biort=bi,qshift=q,magbias=mb), inputs((1,3,32,32)),'scat2')
        print('SCAT', bi, mb, round(r,2), round(r2,2))
print('done')
