import torch, numpy as np, warnings, logging, itertools
import torch.nn.functional as F
warnings.filterwarnings('ignore'); logging.disable(logging.WARNING)
from pytorch_wavelets import DTCWTForward, DTCWTInverse, DWTForward, DWTInverse, ScatLayer, ScatLayerj2, DWT1DForward
from pytorch_wavelets.dtcwt.transform_funcs import fwd_j1, fwd_j2plus, fwd_j1_rot, fwd_j2plus_rot
torch.manual_seed(0)
# C12 bitwise: layouts, prefix, skip, include
x = torch.randn(2,3,22,37)
for J in (1,2,3,4):
    yl0,yh0 = DTCWTForward(J=J,biort='near_sym_b',qshift='qshift_c')(x)
    for o,ri in [(2,5),(0,1),(4,2),(5,0),(3,4),(-1,-3),(1,5)]:
        yl,yh = DTCWTForward(J=J,biort='near_sym_b',qshift='qshift_c',o_dim=o,ri_dim=ri)(x)
        assert torch.equal(yl,yl0)
        for a,b in zip(yh,yh0):
            assert torch.equal(torch.movedim(a,(o%6,ri%6),(2,5)), b), (J,o,ri)
    for j in range(1,J+1):
        ylj,yhj = DTCWTForward(J=j,biort='near_sym_b',qshift='qshift_c')(x)
        assert all(torch.equal(a,b) for a,b in zip(yhj,yh0[:j]))
        inc=[False]*J; inc[j-1]=True
        sc,yh = DTCWTForward(J=J,biort='near_sym_b',qshift='qshift_c',include_scale=inc)(x)
        assert len(sc)==J and torch.equal(sc[j-1], ylj), (J,j)
    for mask in itertools.product([False,True],repeat=J):
        yl,yh = DTCWTForward(J=J,biort='near_sym_b',qshift='qshift_c',skip_hps=list(mask))(x)
        assert torch.equal(yl,yl0)
        for sk,a,b in zip(mask,yh,yh0):
            if sk: assert a.dim()==0 or a.numel()==0
            else: assert torch.equal(a,b)
print('C12 bitwise ok')
# C07 isolation bitwise
for m in [DWTForward(J=2,wave='db3',mode='symmetric'), DTCWTForward(J=3), ScatLayer()]:
    x = torch.randn(3,4,20,24); y = m(x)
    x2 = x.clone(); x2[1,2] = torch.randn(20,24); y2 = m(x2)
    def fl(o): return [o] if isinstance(o,torch.Tensor) else sum([fl(a) for a in o],[])
    for a,b in zip(fl(y),fl(y2)):
        if isinstance(m, ScatLayer):
            a = a.view(3,7,4,*a.shape[2:]); b=b.view(3,7,4,*b.shape[2:])
            mask = torch.ones(3,4,dtype=bool); mask[1,2]=False
            assert torch.equal(a.permute(0,2,1,3,4)[mask], b.permute(0,2,1,3,4)[mask])
        else:
            mask = torch.ones(3,4,dtype=bool); mask[1,2]=False
            assert torch.equal(a[mask], b[mask])
print('C07 isolation bitwise ok')
# C16 conversions
torch.set_default_dtype(torch.float64); m64 = DWTForward(J=2,wave='db5',mode='symmetric'); d64=DTCWTForward(J=2)
torch.set_default_dtype(torch.float32); m32 = DWTForward(J=2,wave='db5',mode='symmetric'); d32=DTCWTForward(J=2)
for a,b in [(m64,m32),(d64,d32)]:
    a = a.float()
    for (k1,v1),(k2,v2) in zip(a.named_buffers(), b.named_buffers()): assert torch.equal(v1,v2), k1
print('C16 .float() buffers bitwise ok')
# C08 constant-border for j2
torch.set_default_dtype(torch.float64)
for (h,w) in [(11,13),(9,20),(17,30),(12,12)]:
    x = torch.randn(1,2,h,w)
    x[:,:,:4]=x[:,:,3:4]; x[:,:,-4:]=x[:,:,-4:-3]; x[:,:,:,:4]=x[:,:,:,3:4]; x[:,:,:,-4:]=x[:,:,:,-4:-3]
    z = ScatLayerj2()(x)
    def ext(n):
        rem=n%8
        return (0,0) if rem==0 else ((8-rem)//2,(9-rem)//2)
    (rb,ra),(cb,ca) = ext(h),ext(w)
    xe = F.pad(x,(cb,ca,rb,ra),mode='replicate')
    assert torch.allclose(z, ScatLayerj2()(xe), atol=1e-12), (h,w)
print('C08 constant-border ok')
# C09 recomposition autograd
x = torch.randn(1,2,8,8,requires_grad=True)
lay = ScatLayer(biort='near_sym_a', magbias=0.01)
ll,re,im = fwd_j1(x, lay.h0o, lay.h1o, False, 1, 'symmetric')
r = torch.sqrt(re**2+im**2+0.01**2)-0.01
Z = torch.cat((F.avg_pool2d(ll,2)[:,None], r),dim=1).view(1,14,4,4)
z = lay(x); assert torch.allclose(z,Z,atol=1e-13)
g = torch.randn_like(z); a,=torch.autograd.grad(z,x,g); b,=torch.autograd.grad(Z,x,g)
print('C09 recomposition', (a-b).abs().max().item())
