import torch, numpy as np, warnings, logging, time, subprocess, sys
warnings.filterwarnings('ignore'); logging.disable(logging.WARNING)
from pytorch_wavelets import ScatLayer, ScatLayerj2
torch.set_default_dtype(torch.float64); torch.manual_seed(0)
worst={}
for order in (1,2):
  for b in [1e-4,1e-3,1e-2,1.0]:
    for kind in ['randn','sparse','zero','tiny','big']:
      for rep in range(3):
        x = torch.randn(1,2,8,8)
        if kind=='sparse': x = x*(torch.rand_like(x)<0.1)
        if kind=='zero': x.zero_()
        if kind=='tiny': x*=1e-3
        if kind=='big': x*=1e3
        lay = ScatLayer(magbias=b) if order==1 else ScatLayerj2(magbias=b)
        xr = x.clone().requires_grad_(True); z=lay(xr); g=torch.randn_like(z); gx,=torch.autograd.grad(z,xr,g)
        h = 1e-6*(x.abs().max().item()+b)
        for _ in range(3):
            v=torch.randn_like(x)
            with torch.no_grad(): d=(((lay(x+h*v)-lay(x-h*v))/(2*h))*g).sum().item()
            a=(gx*v).sum().item()
            e=abs(a-d)/(1e-12+abs(d)+abs(a)+ g.abs().max().item()*v.abs().max().item()*1e-3)
            worst[(order,b,kind)]=max(worst.get((order,b,kind),0),e)
for k,v in sorted(worst.items()): 
    if v>1e-7: print(k, '%.2e'%v)
print('max', max(worst.values()))
t=time.time(); subprocess.run([sys.executable,'-c','import torch, pytorch_wavelets; m=pytorch_wavelets.DTCWTForward(J=3); m(torch.zeros(1,1,16,16))'],capture_output=True); print('fresh interpreter + 1 call', time.time()-t)
