import torch, numpy as np, pywt, warnings
warnings.filterwarnings('ignore')
from pytorch_wavelets import DWTForward, DWTInverse
import pytorch_wavelets.dwt.lowlevel as ll
torch.set_default_dtype(torch.float64)
rng = np.random.RandomState(0)
bad={}
for mode in ['zero','symmetric','periodization','reflect','periodic']:
  for wc, wr in [('db2','db3'),('db1','bior2.4'),('sym4','db2'), ('db2','sym2'), ('db3','db3')]:
    c, r = pywt.Wavelet(wc), pywt.Wavelet(wr)
    for (h,wd) in [(16,16),(17,20),(32,24)]:
      for J in (1,2):
        x = rng.randn(2,2,h,wd)
        ref = pywt.wavedec2(x, (c, r), mode=mode, level=J, axes=(-2,-1))
        fwd = DWTForward(J=J, wave=(c.dec_lo,c.dec_hi,r.dec_lo,r.dec_hi), mode=mode)
        try: yl, yh = fwd(torch.tensor(x))
        except Exception as e:
            bad.setdefault(('fwd-raise',mode,type(e).__name__,str(e)[:40]),[]).append((wc,wr,h,wd,J)); continue
        ok = yl.shape==ref[0].shape and np.allclose(yl.numpy(), ref[0], atol=1e-9)
        if ok:
            for j in range(J):
                rr = np.stack(ref[J-j],axis=2); ok = ok and yh[j].shape==rr.shape and np.allclose(yh[j].numpy(), rr, atol=1e-9)
        if not ok: bad.setdefault(('fwd-diff',mode, wc==wr),[]).append((wc,wr,h,wd,J))
        # functional afb2d
        if J==1:
            y = ll.afb2d(torch.tensor(x), (c.dec_lo,c.dec_hi,r.dec_lo,r.dec_hi), mode)
            y = y.reshape(2,2,4,y.shape[-2],y.shape[-1])
            rr = np.concatenate([ref[0][:,:,None], np.stack(ref[1],axis=2)],axis=2)
            if y.shape != rr.shape or not np.allclose(y.numpy(), rr, atol=1e-9): bad.setdefault(('afb2d-diff',mode),[]).append((wc,wr,h,wd))
        # inverse on pywt coeffs
        inv = DWTInverse(wave=(c.rec_lo,c.rec_hi,r.rec_lo,r.rec_hi), mode=mode)
        pyr = [rng.randn(*ref[0].shape)] + [tuple(rng.randn(*b.shape) for b in lev) for lev in ref[1:]]
        rref = pywt.waverec2(pyr, (c,r), mode=mode, axes=(-2,-1))
        try:
            rec = inv((torch.tensor(pyr[0]), [torch.tensor(np.stack(l,axis=2)) for l in pyr[1:][::-1]]))
            if rec.shape != rref.shape or not np.allclose(rec.numpy(), rref, atol=1e-9): bad.setdefault(('inv-diff',mode, wc==wr),[]).append((wc,wr,h,wd,J))
        except Exception as e:
            bad.setdefault(('inv-raise',mode,type(e).__name__,str(e)[:40]),[]).append((wc,wr,h,wd,J))
        if J==1:
            rec = ll.sfb2d(torch.tensor(pyr[0]), *[torch.tensor(b) for b in pyr[1]], (c.rec_lo,c.rec_hi,r.rec_lo,r.rec_hi), mode)
            if rec.shape != rref.shape or not np.allclose(rec.numpy(), rref, atol=1e-9): bad.setdefault(('sfb2d-diff',mode),[]).append((wc,wr,h,wd))
for k,v in sorted(bad.items(), key=str): print(k, len(v), v[:6])
