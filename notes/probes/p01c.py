import torch, numpy as np, pywt, warnings
warnings.filterwarnings('ignore')
from pytorch_wavelets import DWTForward, DWTInverse, DWT1DForward, DWT1DInverse
torch.set_default_dtype(torch.float64)
rng = np.random.RandomState(0)
modes = ['zero','symmetric','reflect','periodic','periodization']
bad = {}
cnt=0
for w in ['db1','db2','db3','db5','sym4','coif2','bior1.3','bior2.4','bior3.1','bior3.9','rbio2.8','dmey','coif5'][:]:
    L = pywt.Wavelet(w).dec_len
    for mode in modes:
        for (h,wd) in [(2,2),(2,7),(5,3),(8,8),(9,12),(13,13),(16,31),(33,20),(L,L),(L+1,L-1),(L-1, L+1)]:
            if h<2 or wd<2: continue
            for J in (1,2,3):
                x = rng.randn(1,2,h,wd)
                try:
                    ref = pywt.wavedec2(x, w, mode=mode, level=J)
                except Exception: continue
                cnt+=1
                try:
                    yl, yh = DWTForward(J=J, wave=w, mode=mode)(torch.tensor(x))
                except Exception as e:
                    bad.setdefault(('raise', mode, type(e).__name__), []).append((w,h,wd,J,L))
                    continue
                ok = yl.shape == ref[0].shape and np.allclose(yl.numpy(), ref[0], atol=1e-9)
                for j in range(J):
                    r = np.stack(ref[J-j], axis=2)
                    ok = ok and yh[j].shape == r.shape and np.allclose(yh[j].numpy(), r, atol=1e-9)
                if not ok:
                    bad.setdefault(('diff', mode), []).append((w,h,wd,J,L, min(h,wd)+ (min(h,wd)%2) >= L))
print(cnt)
for k,v in bad.items():
    print(k, len(v), v[:10])
    if k[0]=='diff': print('  any with evenN>=L:', [t for t in v if t[-1]][:10])
