import torch, numpy as np, pywt, warnings
warnings.filterwarnings('ignore')
import pytorch_wavelets.dwt.lowlevel as ll
torch.set_default_dtype(torch.float64)
rng = np.random.RandomState(0)
bad={}; cnt=0
for w in pywt.wavelist(kind='discrete'):
  wv = pywt.Wavelet(w)
  filts = ll.prep_filt_afb2d(wv.dec_lo, wv.dec_hi)
  for J,(h,wd) in [(1,(2,2)),(1,(4,6)),(2,(4,8)),(3,(8,8)),(3,(16,24)),(2,(12,4)), (4,(16,32))]:
    x = rng.randn(1,2,h,wd)
    try: ref = pywt.swt2(x, w, level=J, axes=(-2,-1))
    except Exception as e: bad.setdefault(('ref',str(e)[:40]),[]).append((w,J,h,wd)); continue
    cur = torch.tensor(x); ok=True; cnt+=1
    try:
        for j in range(J):
            y = ll.afb2d_atrous(cur, filts, 'periodic', 2**j)
            y = y.reshape(y.shape[0], -1, 4, y.shape[-2], y.shape[-1]); cur = y[:,:,0]
            cA,(cH,cV,cD) = ref[J-1-j]
            ok = ok and np.allclose(y.numpy(), np.stack([cA,cH,cV,cD],axis=2), atol=1e-9)
    except Exception as e:
        bad.setdefault(('raise',str(e)[:40]),[]).append((w,J,h,wd)); continue
    if not ok: bad.setdefault(('diff',),[]).append((w,J,h,wd,wv.dec_len))
print(cnt)
for k,v in bad.items(): print(k,len(v),v[:8])
