import torch, numpy as np, pywt, warnings
warnings.filterwarnings('ignore')
from pytorch_wavelets import DWT1DForward
torch.set_default_dtype(torch.float64)
rng = np.random.RandomState(0)
# single-level periodization: characterise failing (n, L)
res = {}
for w in pywt.wavelist(kind='discrete'):
    L = pywt.Wavelet(w).dec_len
    for n in range(1, 70):
        x = rng.randn(1,1,n)
        ref = pywt.dwt(x, w, mode='periodization')
        try:
            yl, yh = DWT1DForward(J=1, wave=w, mode='periodization')(torch.tensor(x))
            ok = yl.shape == ref[0].shape and np.allclose(yl.numpy(), ref[0], atol=1e-9) and np.allclose(yh[0].numpy(), ref[1], atol=1e-9)
            res.setdefault((L, n), set()).add('ok' if ok else 'diff')
        except Exception as e:
            res.setdefault((L, n), set()).add('raise:'+type(e).__name__)
Ls = sorted({k[0] for k in res})
for L in Ls:
    row = [(n, res[(L,n)]) for n in range(1,70) if res[(L,n)] != {'ok'}]
    print(L, 'first ok n:', min(n for n in range(1,70) if res[(L,n)]=={'ok'}), 'nonok:', [(n, sorted(s)) for n,s in row][:12], '... max nonok', max([n for n,_ in row] or [0]))
