import torch, numpy as np, pywt, warnings, itertools
warnings.filterwarnings('ignore')
from pytorch_wavelets import DWTForward, DWTInverse, DWT1DForward, DWT1DInverse
rng = np.random.RandomState(0)
modes = ['zero','symmetric','reflect','periodic','periodization']
bad = {}
for dt in (torch.float32, torch.float64):
  for w in ['db1','db2','db3','bior2.4','sym5']:
    L = pywt.Wavelet(w).dec_len
    for mode in modes:
        for n in [8, 9, 15, 16, 17, 31, 32, 33, 37]:
            for J in (1,2,3):
                x = torch.tensor(rng.randn(1,2,n), dtype=dt)
                try: yl, yh = DWT1DForward(J=J, wave=w, mode=mode)(x)
                except Exception: continue
                for mask in itertools.product([0,1], repeat=J):
                    if all(mask): continue
                    yh_none = [h if m else None for h,m in zip(yh,mask)]
                    yh_zero = [h if m else torch.zeros_like(h) for h,m in zip(yh,mask)]
                    r0 = DWT1DInverse(wave=w, mode=mode)((yl, yh_zero))
                    try:
                        r1 = DWT1DInverse(wave=w, mode=mode)((yl, yh_none))
                    except Exception as e:
                        bad.setdefault(('1d-raise', str(dt), type(e).__name__, str(e)[:40]), []).append((w,mode,n,J,mask)); continue
                    if r1.dtype != dt: bad.setdefault(('1d-dtype',), []).append((w,mode,n,J,mask))
                    if not torch.allclose(r1[..., :n], r0[..., :n], atol=1e-4):
                        bad.setdefault(('1d-diff', str(dt)), []).append((w,mode,n,J,mask))
                # 2d
                x = torch.tensor(rng.randn(1,2,n, n+1), dtype=dt)
                try: yl, yh = DWTForward(J=J, wave=w, mode=mode)(x)
                except Exception: continue
                for mask in itertools.product([0,1], repeat=J):
                    if all(mask): continue
                    yh_none = [h if m else None for h,m in zip(yh,mask)]
                    yh_zero = [h if m else torch.zeros_like(h) for h,m in zip(yh,mask)]
                    r0 = DWTInverse(wave=w, mode=mode)((yl, yh_zero))
                    try:
                        r1 = DWTInverse(wave=w, mode=mode)((yl, yh_none))
                    except Exception as e:
                        bad.setdefault(('2d-raise', str(dt), type(e).__name__, str(e)[:40]), []).append((w,mode,n,J,mask)); continue
                    if r1.dtype != dt: bad.setdefault(('2d-dtype',), []).append((w,mode,n,J,mask))
                    if not torch.allclose(r1[..., :n, :n+1], r0[..., :n, :n+1], atol=1e-4):
                        bad.setdefault(('2d-diff', str(dt)), []).append((w,mode,n,J,mask))
for k,v in bad.items():
    print(k, len(v), v[:8])
