import torch, numpy as np, warnings, logging, threading, time
from concurrent.futures import ThreadPoolExecutor
warnings.filterwarnings('ignore'); logging.disable(logging.WARNING)
from pytorch_wavelets import DWTForward, DWTInverse, DTCWTForward, DTCWTInverse, ScatLayer, ScatLayerj2, DWT1DForward
torch.manual_seed(0)
mods = [DWTForward(J=2,wave='db3',mode='symmetric'), DWTForward(J=3,wave='bior2.4',mode='periodization'), DTCWTForward(J=3), DTCWTForward(J=2,biort='near_sym_b',qshift='qshift_d',o_dim=1,ri_dim=2), ScatLayer(), ScatLayerj2(), DWT1DForward(J=2,wave='sym4',mode='reflect')]
def flat(o):
    if isinstance(o, torch.Tensor): return [o]
    r=[]
    for a in o: r+=flat(a)
    return r
ins = [torch.randn(2,3,33,40), torch.randn(1,3,16,16), torch.randn(2,3,64,64)]
jobs=[]
for m in mods:
    for x in ins:
        xx = x if not isinstance(m, DWT1DForward) else x[:,:,0]
        jobs.append((m,xx))
serial = [flat(m(x)) for m,x in jobs]
snap = [x.clone() for _,x in jobs]
t=time.time()
for rep in range(5):
    with ThreadPoolExecutor(8) as ex:
        par = list(ex.map(lambda mx: flat(mx[0](mx[1])), jobs*3))
    for i,p in enumerate(par):
        s = serial[i%len(jobs)]
        assert all(torch.equal(a,b) for a,b in zip(s,p)), i
assert all(torch.equal(a,b[1]) for a,b in zip(snap,jobs))
print('threads ok bitwise', time.time()-t)
