import torch, numpy as np, pywt, warnings
warnings.filterwarnings('ignore')
import pytorch_wavelets.dwt.lowlevel as ll
torch.set_default_dtype(torch.float64)
rng = np.random.RandomState(0)
for w in ['db1','db2','db3','bior2.4','sym4']:
  wv = pywt.Wavelet(w)
  filts = ll.prep_filt_afb2d(wv.dec_lo, wv.dec_hi)
  for J in (1,2,3):
    h,wd = 16,24
    x = rng.randn(2,3,h,wd)
    ref = pywt.swt2(x, w, level=J, axes=(-2,-1))
    cur = torch.tensor(x); outs=[]
    for j in range(J):
        y = ll.afb2d_atrous(cur, filts, 'periodic', 2**j)
        y = y.reshape(y.shape[0], -1, 4, y.shape[-2], y.shape[-1])
        outs.append(y); cur = y[:,:,0]
    res=[]
    for j in range(J):
        cA,(cH,cV,cD) = ref[J-1-j]
        r = np.stack([cA,cH,cV,cD], axis=2)
        o = outs[j].numpy()
        if np.allclose(o, r, atol=1e-9): res.append('eq'); continue
        # search shifts & band perms
        found=None
        for sy in range(-8,9):
            for sx in range(-8,9):
                if np.allclose(np.roll(o,(sy,sx),axis=(-2,-1)), r, atol=1e-9): found=(sy,sx)
        res.append(found)
    print(w, J, res)
