import torch, numpy as np, warnings, itertools, logging
import torch.nn.functional as F
warnings.filterwarnings('ignore'); logging.disable(logging.WARNING)
from pytorch_wavelets import ScatLayer, ScatLayerj2
from pytorch_wavelets.scatternet.lowlevel import SmoothMagFn
torch.set_default_dtype(torch.float64)
torch.manual_seed(0)
bad={}; cnt=0
def fd_check(layer, x, g, ndir=4, h=1e-6):
    x = x.clone().requires_grad_(True)
    z = layer(x)
    gx, = torch.autograd.grad(z, x, g)
    errs=[]
    for _ in range(ndir):
        v = torch.randn_like(x)
        with torch.no_grad():
            d = ((layer(x+h*v)-layer(x-h*v))/(2*h) * g).sum()
        a = (gx*v).sum()
        errs.append(abs((a-d).item())/(1+abs(d.item())))
    return max(errs), gx
for biort in ['near_sym_a','near_sym_b','near_sym_b_bp','antonini']:
  for b in [1e-2, 1.0]:
    for colour in (False, True):
      for (h,w) in [(4,6),(8,8),(5,7)]:
        C = 3 if colour else 2
        for kind in ['randn','zero']:
            x = torch.randn(2,C,h,w)
            if kind=='zero': x.zero_()
            layer = ScatLayer(biort=biort, magbias=b, combine_colour=colour)
            z = layer(x); g = torch.randn_like(z); cnt+=1
            try:
                e, gx = fd_check(layer, x, g)
            except Exception as ex:
                bad.setdefault(('j1-raise',type(ex).__name__,str(ex)[:50]),[]).append((biort,b,colour,h,w,kind)); continue
            if not torch.isfinite(gx).all(): bad.setdefault(('j1-nonfinite',kind),[]).append((biort,b,colour,h,w))
            if e>1e-5: bad.setdefault(('j1-diff',kind),[]).append((biort,b,colour,h,w,e))
            # non-contiguous cotangent
            try:
                xx = x.clone().requires_grad_(True)
                zz = layer(xx)
                W = torch.randn(zz.shape[0],zz.shape[1],zz.shape[3],zz.shape[2])
                (zz.permute(0,1,3,2)*W).sum().backward()
                xx2 = x.clone().requires_grad_(True)
                gz = W.permute(0,1,3,2).contiguous()
                gx2, = torch.autograd.grad(layer(xx2), xx2, gz)
                if not torch.allclose(xx.grad, gx2, atol=1e-10): bad.setdefault(('j1-noncontig-diff',),[]).append((biort,b,colour,h,w))
            except Exception as ex:
                bad.setdefault(('j1-noncontig-raise',type(ex).__name__,str(ex)[:60]),[]).append((biort,b,colour,h,w,kind))
for biort,qshift in [('near_sym_a','qshift_a'),('near_sym_b_bp','qshift_b_bp'),('legall','qshift_c')]:
  for b in [1e-2, 1.0]:
    for colour in (False, True):
      for (h,w) in [(8,8),(16,8),(5,9)]:
        C = 3 if colour else 2
        for kind in ['randn','zero']:
            x = torch.randn(1,C,h,w)
            if kind=='zero': x.zero_()
            layer = ScatLayerj2(biort=biort,qshift=qshift, magbias=b, combine_colour=colour)
            z = layer(x); g = torch.randn_like(z); cnt+=1
            try: e, gx = fd_check(layer, x, g)
            except Exception as ex:
                bad.setdefault(('j2-raise',type(ex).__name__,str(ex)[:50]),[]).append((biort,b,colour,h,w,kind)); continue
            if not torch.isfinite(gx).all(): bad.setdefault(('j2-nonfinite',kind),[]).append((biort,b,colour,h,w))
            if e>1e-5: bad.setdefault(('j2-diff',kind),[]).append((biort,b,colour,h,w,e))
            try:
                xx = x.clone().requires_grad_(True)
                zz = layer(xx)
                W = torch.randn(zz.shape[0],zz.shape[1],zz.shape[3],zz.shape[2])
                (zz.permute(0,1,3,2)*W).sum().backward()
                xx2 = x.clone().requires_grad_(True)
                gz = W.permute(0,1,3,2).contiguous()
                gx2, = torch.autograd.grad(layer(xx2), xx2, gz)
                if not torch.allclose(xx.grad, gx2, atol=1e-10): bad.setdefault(('j2-noncontig-diff',),[]).append((biort,b,colour,h,w))
            except Exception as ex:
                bad.setdefault(('j2-noncontig-raise',type(ex).__name__,str(ex)[:60]),[]).append((biort,b,colour,h,w,kind))
# SmoothMagFn
for kind in ['randn','zero']:
  for req in [(True,True),(True,False),(False,True)]:
    x = torch.randn(3,4); y = torch.randn(3,4)
    if kind=='zero': x.zero_(); y.zero_()
    x.requires_grad_(req[0]); y.requires_grad_(req[1])
    b=0.1
    try:
        r = SmoothMagFn.apply(x,y,b); g = torch.randn_like(r)
        grads = torch.autograd.grad(r, [t for t,q in zip((x,y),req) if q], g, allow_unused=True)
        xr = x.detach().clone().requires_grad_(req[0]); yr=y.detach().clone().requires_grad_(req[1])
        rr = torch.sqrt(xr**2+yr**2+b**2)-b
        want = torch.autograd.grad(rr, [t for t,q in zip((xr,yr),req) if q], g)
        for a,wv in zip(grads,want):
            if a is None or not torch.allclose(a,wv,atol=1e-12): bad.setdefault(('smoothmag-diff',kind,req),[]).append(None if a is None else (a-wv).abs().max().item())
    except Exception as ex:
        bad.setdefault(('smoothmag-raise',kind,req,type(ex).__name__,str(ex)[:60]),[]).append(1)
print(cnt)
for k,v in sorted(bad.items(), key=str): print(k, len(v), v[:6])
