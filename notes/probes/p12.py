import torch, numpy as np, warnings, itertools, sys, logging
warnings.filterwarnings('ignore'); logging.disable(logging.WARNING)
from pytorch_wavelets import DTCWTForward, DTCWTInverse
torch.set_default_dtype(torch.float64)
rng = np.random.RandomState(0)
bad = {}; cnt=0
def canon(t, o, ri):
    # move o -> 2, ri -> last  given 6-d tensor with o,ri positions (normalized)
    o%=6; ri%=6
    rest = [d for d in range(6) if d not in (o,ri)]
    return t.permute(rest[0], rest[1], o, rest[2], rest[3], ri)
for (h,w) in [(8,8),(12,20),(7,9),(16,16), (6,6)]:
  x = torch.tensor(rng.randn(2,3,h,w))
  for J in (1,2,3):
    yl0, yh0 = DTCWTForward(J=J)(x)
    rec0 = DTCWTInverse()((yl0,yh0))
    for o in range(-6,6):
      for ri in range(-6,6):
        if o%6 == ri%6: continue
        cnt+=1
        try:
            yl, yh = DTCWTForward(J=J, o_dim=o, ri_dim=ri)(x)
        except Exception as e:
            bad.setdefault(('fwd-raise', o, ri, type(e).__name__, str(e)[:40]), []).append((h,w,J)); continue
        ok = torch.equal(yl, yl0)
        for a,b in zip(yh, yh0):
            try:
                ok = ok and torch.allclose(canon(a,o,ri), b, atol=1e-12)
            except Exception as e:
                ok = False
        if not ok: bad.setdefault(('fwd-diff', o%6, ri%6), []).append((h,w,J, o, ri, tuple(yh[0].shape)))
        try:
            rec = DTCWTInverse(o_dim=o, ri_dim=ri)((yl,yh))
            if rec.shape != rec0.shape or not torch.allclose(rec, rec0, atol=1e-9):
                bad.setdefault(('inv-diff', o%6, ri%6), []).append((h,w,J,o,ri, tuple(rec.shape)))
        except Exception as e:
            bad.setdefault(('inv-raise', o%6, ri%6, type(e).__name__, str(e)[:40]), []).append((h,w,J,o,ri))
print(cnt)
for k,v in sorted(bad.items(), key=str):
    print(k, len(v), v[:4])
