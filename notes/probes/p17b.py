import torch, numpy as np, pywt, warnings
warnings.filterwarnings('ignore')
from pytorch_wavelets import DWT1DForward
torch.set_default_dtype(torch.float64)
worst={}
for w in pywt.wavelist(kind='discrete'):
    wv=pywt.Wavelet(w)
    if not wv.orthogonal or w=='dmey': continue
    L=wv.dec_len; J=3; n = (-(-L//2))*2**J
    if n>600: J=1; n=L
    eye=torch.eye(n).reshape(n,1,n); yl,yh=DWT1DForward(J=J,wave=w,mode='periodization')(eye)
    A=torch.cat([yl.reshape(n,-1)]+[h.reshape(n,-1) for h in yh],dim=1).T
    worst[w]=(A.T@A-torch.eye(n)).abs().max().item()
print(sorted(worst.items(), key=lambda t:-t[1])[:8])
