import os, json, time
import hypothesis
from hypothesis import given, settings, strategies as st, HealthCheck, seed, Phase, event
from hypothesis.stateful import RuleBasedStateMachine, rule, invariant, run_state_machine_as_test, Bundle
S = int(os.environ.get('VERIF_SEED','1'))
state = {'first_fail': None, 'calls_after': 0, 'seen_fail': {}, 'n':0, 'best':None}
BUDGET = 40
def prop(case):
    # fake property: fails when n odd and n>=9 and J>=2
    return not (case['n']%2==1 and case['n']>=9 and case['J']>=2)
@seed(S)
@settings(max_examples=300, database=None, deadline=None, report_multiple_bugs=False, suppress_health_check=list(HealthCheck))
@given(st.fixed_dictionaries({'n': st.integers(2,96), 'J': st.integers(1,4), 'w': st.sampled_from(['db1','db2','db3']), 'seed': st.integers(0,2**31-1)}))
def test(case):
    state['n']+=1
    key = json.dumps(case, sort_keys=True)
    if key in state['seen_fail']:
        failed = True
    elif state['first_fail'] is not None and state['calls_after'] >= BUDGET:
        failed = False
    else:
        if state['first_fail'] is not None: state['calls_after']+=1
        failed = not prop(case)
        if failed:
            state['seen_fail'][key]=case
            if state['first_fail'] is None: state['first_fail']=case
    if failed:
        raise AssertionError(key)
t=time.time()
try:
    test(); print('passed')
except AssertionError as e:
    print('first', state['first_fail'], 'final', json.loads(str(e)), 'executions', state['n'], 'after', state['calls_after'])
print(time.time()-t)
class M(RuleBasedStateMachine):
    def __init__(self): super().__init__(); self.hist=[]
    mods = Bundle('mods')
    @rule(target=mods, c=st.integers(0,5))
    def construct(self,c): self.hist.append(('c',c)); return c
    @rule(m=mods, i=st.integers(0,3))
    def call(self,m,i): self.hist.append(('call',m,i)); event(f'call{i}')
    @invariant()
    def inv(self): assert len(self.hist)<1000
    def teardown(self): ALL.append(list(self.hist))
ALL=[]
run_state_machine_as_test(seed(S)(M), settings=settings(max_examples=20, stateful_step_count=30, database=None, deadline=None))
print(len(ALL), ALL[3][:6])
ALL2=list(ALL); ALL.clear()
run_state_machine_as_test(seed(S)(M), settings=settings(max_examples=20, stateful_step_count=30, database=None, deadline=None))
print('deterministic', ALL==ALL2)
