import torch, numpy as np, pywt, warnings
warnings.filterwarnings('ignore')
from pytorch_wavelets import DWTForward, DWTInverse, DWT1DForward, DWT1DInverse
torch.set_default_dtype(torch.float64)
rng = np.random.RandomState(0)
modes = ['zero','symmetric','reflect','periodic','periodization']
bad = {}
cnt=0
for w in pywt.wavelist(kind='discrete'):
    L = pywt.Wavelet(w).dec_len
    for mode in modes:
        for n in list(range(2, 14)) + [L-1, L, L+1, 2*L, 2*L+1, 31, 32, 33]:
            if n < 2: continue
            for J in (1,2,3):
                x = rng.randn(1,2,n)
                try:
                    ref = pywt.wavedec(x, w, mode=mode, level=J)
                except Exception: continue
                # random pyramid with these shapes
                pyr = [rng.randn(*c.shape) for c in ref]
                rec_ref = pywt.waverec(pyr, w, mode=mode)
                cnt+=1
                try:
                    rec = DWT1DInverse(wave=w, mode=mode)((torch.tensor(pyr[0]), [torch.tensor(c) for c in pyr[1:][::-1]]))
                except Exception as e:
                    bad.setdefault(('inv-raise', mode, type(e).__name__), []).append((w,n,J,L,str(e)[:50]))
                    continue
                short = any(( (c.shape[-1]*2) < L) for c in ref[1:])
                if rec.shape != rec_ref.shape or not np.allclose(rec.numpy(), rec_ref, atol=1e-8):
                    bad.setdefault(('inv-diff', mode, 'short' if short else 'long', rec.shape[-1]-rec_ref.shape[-1]), []).append((w,n,J,L))
                # PR from pywt coefficients
                rec2 = DWT1DInverse(wave=w, mode=mode)((torch.tensor(ref[0]), [torch.tensor(c) for c in ref[1:][::-1]])).numpy()
                pr_ref = pywt.waverec(ref, w, mode=mode)
                e1 = np.abs(rec2[..., :n]-x).max(); e0 = np.abs(pr_ref[..., :n]-x).max()
                if e1 > 1e-8 + 10*e0 or rec2.shape[-1] not in (n, n+1):
                    bad.setdefault(('pr', mode, 'short' if short else 'long'), []).append((w,n,J,L,e1,e0, rec2.shape[-1]))
print(cnt)
for k,v in bad.items():
    print(k, len(v), v[:6])
