import torch, numpy as np, pywt, warnings
warnings.filterwarnings('ignore')
from pytorch_wavelets.dwt.transform2d import SWTForward
torch.set_default_dtype(torch.float64)
rng = np.random.RandomState(0)
bad={}
for mode in ['periodization','periodic','per', 'zero', 'symmetric']:
  for w in ['db1','db2','db3','sym4','bior2.4','bior1.3','coif1','dmey']:
    for J in (1,2,3):
      for (h,wd) in [(8,8),(16,24),(32,8), (64,64)]:
        if h % 2**J or wd % 2**J: continue
        x = rng.randn(2,3,h,wd)
        try: ref = pywt.swt2(x, w, level=J, axes=(-2,-1), trim_approx=False, norm=False)
        except Exception as e: 
            bad.setdefault(('ref-raise', str(e)[:50]),[]).append((w,J,h,wd)); continue
        try:
            out = SWTForward(J=J, wave=w, mode=mode)(torch.tensor(x))
        except Exception as e:
            bad.setdefault(('raise', mode, type(e).__name__, str(e)[:50]),[]).append((w,J,h,wd)); continue
        ok = len(out)==J
        for j in range(J):
            cA,(cH,cV,cD) = ref[J-1-j]   # pywt returns coarsest first
            r = np.stack([cA,cH,cV,cD], axis=2)
            ok = ok and tuple(out[j].shape)==r.shape and np.allclose(out[j].numpy(), r, atol=1e-9)
        if not ok:
            # try to see whether equal up to circular shift
            bad.setdefault(('diff', mode),[]).append((w,J,h,wd, tuple(out[0].shape)))
for k,v in sorted(bad.items(), key=str): print(k, len(v), v[:6])
