import torch, numpy as np, pywt, warnings, itertools
warnings.filterwarnings('ignore')
from pytorch_wavelets import DWTForward, DWTInverse, DWT1DForward, DWT1DInverse
torch.set_default_dtype(torch.float64)
rng = np.random.RandomState(0)
modes = ['zero','symmetric','reflect','periodic','periodization']

def jac_fwd1d(m, n):
    # explicit matrix by basis inputs (linear) => columns
    eye = torch.eye(n).reshape(n,1,n)
    yl, yh = m(eye)
    out = torch.cat([yl.reshape(n,-1)] + [h.reshape(n,-1) for h in yh], dim=1)  # (n, M): row i = T(e_i)
    return out.T  # (M, n)
def vjp_fwd1d(m, n):
    # backward applied to basis cotangents => rows of J
    x = torch.zeros(1,1,n, requires_grad=True)
    yl, yh = m(x)
    outs = [yl] + list(yh)
    flat = torch.cat([o.reshape(-1) for o in outs])
    M = flat.numel()
    rows = []
    for i in range(M):
        g, = torch.autograd.grad(flat[i], x, retain_graph=True)
        rows.append(g.reshape(-1))
    return torch.stack(rows)  # (M, n)
bad = {}
for w in ['db1','db2','db3','bior2.4','bior1.3', 'sym4']:
    L = pywt.Wavelet(w).dec_len
    for mode in modes:
        for n in [6,7,8,9,12,13,16,17,24]:
            for J in (1,2):
                m = DWT1DForward(J=J, wave=w, mode=mode)
                try: A = jac_fwd1d(m, n)
                except Exception as e: continue
                B = vjp_fwd1d(m, n)
                err = (A-B).abs().max().item()
                if err > 1e-9:
                    bad.setdefault((mode, 'odd' if n%2 else 'even'), []).append((w,n,J,round(err,3)))
for k,v in sorted(bad.items()):
    print(k, len(v), v[:8])
