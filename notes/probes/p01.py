import torch, numpy as np, pywt, itertools, sys, warnings
warnings.filterwarnings('ignore')
from pytorch_wavelets import DWT1DForward, DWT1DInverse, DWTForward, DWTInverse
torch.set_default_dtype(torch.float64)
waves = pywt.wavelist(kind='discrete')
print(len(waves))
modes = ['zero','symmetric','reflect','periodic','periodization']
bad = {}
rng = np.random.RandomState(0)
for w in waves:
    L = pywt.Wavelet(w).dec_len
    for mode in modes:
        for n in list(range(2, 20)) + [31, 32, 33, 64, 65]:
            for J in (1,2,3):
                x = rng.randn(1,2,n)
                try:
                    ref = pywt.wavedec(x, w, mode=mode, level=J)
                except Exception as e:
                    continue
                try:
                    yl, yh = DWT1DForward(J=J, wave=w, mode=mode)(torch.tensor(x))
                except Exception as e:
                    bad.setdefault(('raise', mode, type(e).__name__), []).append((w,n,J,L, str(e)[:60]))
                    continue
                ok = yl.shape == ref[0].shape and np.allclose(yl.numpy(), ref[0], atol=1e-9)
                for j in range(J):
                    r = ref[J-j]
                    ok = ok and yh[j].shape == r.shape and np.allclose(yh[j].numpy(), r, atol=1e-9)
                if not ok:
                    bad.setdefault(('diff', mode), []).append((w,n,J,L))
for k,v in bad.items():
    print(k, len(v), v[:8])
