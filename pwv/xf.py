"""A uniform description of 'a transform configuration' used by the
cross-cutting properties (C07 linearity, C16 precision, C15 purity):
cfg dict -> callable, input structure, flattened outputs."""
import numpy as np
import pywt
import torch
from hypothesis import strategies as st

from pwv import dwtu, dtu
from pwv.props.c12 import LAYOUTS, canon
from pwv.props.c06 import to_layout

LINEAR_KINDS = ['dwt1_fwd', 'dwt1_inv', 'dwt2_fwd', 'dwt2_inv', 'swt', 'dtcwt_fwd', 'dtcwt_inv',
                'afb2d', 'sfb2d', 'afb2d_nonsep', 'sfb2d_nonsep']
SCAT_KINDS = ['scat1', 'scat2']
W12 = [w for w in dwtu.WAVES if dwtu.flen(w) <= 12]


def _safe_reflect(size, L, J):
    """Largest J' <= J for which reflect mode cannot raise."""
    while J >= 1:
        if not any(dwtu.reflect_may_raise(dwtu.level_lengths(n, L, 'reflect', J)[0], L, 'reflect') for n in size):
            return J
        J -= 1
    return 0


@st.composite
def cfg_strategy(draw, kinds=None, max_side=12):
    kind = draw(st.sampled_from(kinds or LINEAR_KINDS))
    cfg = {'kind': kind}
    if kind.startswith('dwt') or kind == 'swt' or kind in ('afb2d', 'sfb2d', 'afb2d_nonsep', 'sfb2d_nonsep'):
        w = draw(dwtu.wavelet_strategy(max_len=12))
        L = dwtu.flen(w)
        cfg['wave'] = w
        dim = 1 if kind.startswith('dwt1') else 2
        if kind in ('dwt2_fwd', 'dwt2_inv', 'swt') and draw(st.integers(0, 3)) == 0:
            pick = draw(dwtu.wavelet_strategy(max_len=12))
            if pick != w:
                cfg['wave_row'] = pick          # separate column / row filters (4-tuple form)
        if kind == 'swt':
            J = draw(st.integers(1, 3))
            P = 2 ** J
            cfg.update(J=J, size=[P * draw(st.integers(1, max(1, 16 // P))) for _ in range(2)],
                       mode=draw(st.sampled_from(['periodization', 'periodic'])))
            return cfg
        if kind.startswith('dwt'):
            mode = draw(st.sampled_from(dwtu.MODES5))
            J = draw(st.sampled_from([1, 2, 3]))
        else:
            mode = draw(st.sampled_from(['zero', 'symmetric', 'reflect', 'periodization']))
            J = 1
        cap = 40 if dim == 1 else max_side
        size = [draw(dwtu.size_strategy(L, J, cap=cap)) for _ in range(dim)]
        Lmax = max(L, dwtu.flen(cfg['wave_row'])) if cfg.get('wave_row') else L
        if mode == 'reflect':
            size = [max(n, Lmax + 1) for n in size]
            J = max(1, _safe_reflect(size, Lmax, J))
        if mode == 'periodization':
            # stay out of the short-signal domain where sfb2d_nonsep raises (known finding)
            size = [max(n, dwtu.even_up(Lmax) * 2 ** (J - 1)) for n in size]
        cfg.update(mode=mode, J=J, size=size)
        return cfg
    if kind.startswith('dtcwt'):
        b, q = draw(dtu.pair_strategy())
        o, ri = draw(st.sampled_from(LAYOUTS + [(2, -1)] * 60))
        J = draw(st.integers(1, 3))
        cfg.update(biort=b, qshift=q, J=J, o_dim=o, ri_dim=ri,
                   mode=draw(st.sampled_from(['symmetric', 'symmetric', 'symmetric', 'zero'])),
                   size=[draw(st.integers(2, max_side)), draw(st.integers(2, max_side))])
        if kind == 'dtcwt_fwd':
            cfg['skip'] = draw(st.sampled_from([False, False, True])) and [draw(st.booleans()) for _ in range(J)]
            cfg['scales'] = draw(st.sampled_from([False, False, True])) and [draw(st.booleans()) for _ in range(J)]
        return cfg
    # scattering layers
    from pwv import scatu
    order = 1 if kind == 'scat1' else 2
    b, q = draw(scatu.family_strategy(order))
    colour = draw(st.sampled_from([False, False, True]))
    lo = 3 if order == 2 else 2
    cfg.update(biort=b, qshift=q, colour=colour, bias=draw(scatu.bias_strategy(positive=False)),
               size=[draw(st.integers(lo, 2 * max_side)), draw(st.integers(lo, 2 * max_side))])
    return cfg


def needs_three_channels(cfg):
    return cfg['kind'] in SCAT_KINDS and cfg.get('colour')


def _filters(cfg, rec):
    w = pywt.Wavelet(cfg['wave'])
    return (np.array(w.rec_lo), np.array(w.rec_hi)) if rec else (np.array(w.dec_lo), np.array(w.dec_hi))


def _wave(cfg, rec, npdt=np.float64, keep=None):
    """The `wave` argument: a name, the 2-tuple of arrays (cfg['wave_form'] == 'tuple') or (with cfg['wave_row']) the
    4-tuple of separate column / row filters. Arrays are made in the precision the module is built in and, when `keep`
    is a list, also handed to the caller (who owns them and may reuse them afterwards)."""
    if cfg.get('wave_form') == 'object':
        # a custom pywt.Wavelet object: every such object in the pool carries the same name, the banks differ
        wc = pywt.Wavelet(cfg['wave'])
        a, b = cfg.get('fb_scale', [1.0, 1.0])
        return pywt.Wavelet('custom', filter_bank=[np.array(wc.dec_lo) * a, np.array(wc.dec_hi) * b,
                                                   np.array(wc.rec_lo) / a, np.array(wc.rec_hi) / b])
    if not cfg.get('wave_row') and cfg.get('wave_form') != 'tuple':
        return cfg['wave']
    wc = pywt.Wavelet(cfg['wave'])
    if cfg.get('wave_row'):
        wr = pywt.Wavelet(cfg['wave_row'])
        src = (wc.rec_lo, wc.rec_hi, wr.rec_lo, wr.rec_hi) if rec else (wc.dec_lo, wc.dec_hi, wr.dec_lo, wr.dec_hi)
    else:
        src = (wc.rec_lo, wc.rec_hi) if rec else (wc.dec_lo, wc.dec_hi)
    arrs = tuple(np.array(a, dtype=npdt) for a in src)
    if keep is not None:
        keep.extend(arrs)
    return arrs


def build(cfg, dtype=torch.float64, keep=None):
    """Returns fn(list of input tensors) -> list of output tensors (all with
    leading (N,C) axes), built in the given default dtype. keep: list that receives the filter arrays handed to the
    constructor (tuple forms only)."""
    npdt = np.float32 if dtype == torch.float32 else np.float64
    import pytorch_wavelets as pw
    from pytorch_wavelets.dwt import lowlevel as ll
    from pytorch_wavelets.dwt.transform2d import SWTForward
    k = cfg['kind']
    with dwtu.default_dtype(dtype):
        if k == 'dwt1_fwd':
            m = pw.DWT1DForward(J=cfg['J'], wave=_wave(cfg, False, npdt, keep), mode=cfg['mode'])
            return m, lambda ins: _flat_out(m(ins[0]))
        if k == 'dwt2_fwd':
            m = pw.DWTForward(J=cfg['J'], wave=_wave(cfg, False, npdt, keep), mode=cfg['mode'])
            return m, lambda ins: _flat_out(m(ins[0]))
        if k == 'dwt1_inv':
            m = pw.DWT1DInverse(wave=_wave(cfg, True, npdt, keep), mode=cfg['mode'])
            return m, lambda ins: [_inv_call(m, ins[0], _with_none(ins[1:], cfg))]
        if k == 'dwt2_inv':
            m = pw.DWTInverse(wave=_wave(cfg, True, npdt, keep), mode=cfg['mode'])
            return m, lambda ins: [_inv_call(m, ins[0], _with_none(ins[1:], cfg))]
        if k == 'swt':
            m = SWTForward(J=cfg['J'], wave=_wave(cfg, False, npdt, keep), mode=cfg['mode'])
            return m, lambda ins: list(m(ins[0]))
        if k == 'dtcwt_fwd':
            m = pw.DTCWTForward(biort=cfg['biort'], qshift=cfg['qshift'], J=cfg['J'], o_dim=cfg['o_dim'],
                                ri_dim=cfg['ri_dim'], skip_hps=cfg.get('skip', False),
                                include_scale=cfg.get('scales', False), mode=cfg.get('mode', 'symmetric'))
            o, ri = cfg['o_dim'], cfg['ri_dim']

            def f(ins):
                yl, yh = m(ins[0])
                outs = [t for t in (yl if isinstance(yl, (list, tuple)) else [yl]) if t.dim() > 0 and t.numel() > 0]
                outs += [canon(t, o, ri) for t in yh if t.dim() == 6]
                return outs
            return m, f
        if k == 'dtcwt_inv':
            m = pw.DTCWTInverse(biort=cfg['biort'], qshift=cfg['qshift'], o_dim=cfg['o_dim'], ri_dim=cfg['ri_dim'],
                                mode=cfg.get('mode', 'symmetric'))
            o, ri = cfg['o_dim'], cfg['ri_dim']
            return m, lambda ins: [_inv_call(m, ins[0], [to_layout(t, o, ri) for t in ins[1:]])]
        if k in ('afb2d', 'afb2d_nonsep'):
            # filters are prepared once, in the requested precision, so that calls never touch the
            # process-wide default dtype (which would race between threads)
            h0, h1 = _filters(cfg, False)
            filts = ll.prep_filt_afb2d(h0, h1) if k == 'afb2d' else ll.prep_filt_afb2d_nonsep(h0, h1)
            fn = ll.afb2d if k == 'afb2d' else ll.afb2d_nonsep

            def f(ins):
                y = fn(ins[0], filts, cfg['mode'])
                return [y.reshape(y.shape[0], -1, 4, y.shape[-2], y.shape[-1])]
            return None, f
        if k in ('sfb2d', 'sfb2d_nonsep'):
            g0, g1 = _filters(cfg, True)
            filts = ll.prep_filt_sfb2d(g0, g1) if k == 'sfb2d' else ll.prep_filt_sfb2d_nonsep(g0, g1)

            def f(ins):
                c = ins[0]
                if k == 'sfb2d':
                    return [ll.sfb2d(c[:, :, 0], c[:, :, 1], c[:, :, 2], c[:, :, 3], filts, cfg['mode'])]
                return [ll.sfb2d_nonsep(c, filts, cfg['mode'])]
            return None, f
        if k == 'scat1':
            m = pw.ScatLayer(biort=cfg['biort'], magbias=cfg['bias'], combine_colour=cfg['colour'])
            return m, lambda ins: [m(ins[0])]
        if k == 'scat2':
            m = pw.ScatLayerj2(biort=cfg['biort'], qshift=cfg['qshift'], magbias=cfg['bias'],
                               combine_colour=cfg['colour'])
            return m, lambda ins: [m(ins[0])]
    raise ValueError(k)


ARG_MUTATIONS = []         # filled by _inv_call: the caller's coefficient LIST (not only its tensors) is an argument too


def _inv_call(m, lo, highs):
    snap = list(highs)
    out = m((lo, highs))
    if len(highs) != len(snap) or any(a is not b for a, b in zip(highs, snap)):
        ARG_MUTATIONS.append('the list of highpass coefficients handed to %s was modified by the call' % type(m).__name__)
    return out


def _with_none(highs, cfg):
    """cfg['none'] lists the (0-based, finest first) levels handed over as None."""
    none = cfg.get('none') or []
    return [None if j in none else t for j, t in enumerate(highs)]


def _flat_out(out):
    yl, yh = out
    return [yl] + list(yh)


def input_shapes(cfg):
    """Per-slice shapes (without N,C) of the input tensors."""
    k = cfg['kind']
    size = list(cfg['size'])
    if k in ('dwt1_fwd', 'dwt2_fwd', 'swt', 'dtcwt_fwd', 'afb2d', 'afb2d_nonsep', 'scat1', 'scat2'):
        return [tuple(size)]
    if k in ('dwt1_inv', 'dwt2_inv'):
        if cfg.get('wave_row'):
            kh = dwtu.level_lengths(size[0], dwtu.flen(cfg['wave']), cfg['mode'], cfg['J'])[1]
            kw = dwtu.level_lengths(size[1], dwtu.flen(cfg['wave_row']), cfg['mode'], cfg['J'])[1]
            return [(kh[-1], kw[-1])] + [(3, a, b) for a, b in zip(kh, kw)]
        lo, his = dwtu.pyr_shapes(size, dwtu.flen(cfg['wave']), cfg['mode'], cfg['J'])
        return [tuple(lo)] + [tuple(h) for h in his]
    if k == 'dtcwt_inv':
        lo, hs, _ = dtu.pyramid_shapes(size[0], size[1], cfg['J'])
        return [tuple(lo)] + [(6, h, w, 2) for h, w in hs]
    if k in ('sfb2d', 'sfb2d_nonsep'):
        L = dwtu.flen(cfg['wave'])
        return [(4, pywt.dwt_coeff_len(size[0], L, cfg['mode']), pywt.dwt_coeff_len(size[1], L, cfg['mode']))]
    raise ValueError(k)


def per_slice(ts):
    """List of output tensors (N,C,...) -> numpy (N,C,total)."""
    return np.concatenate([t.detach().numpy().astype(np.float64).reshape(t.shape[0], t.shape[1], -1) for t in ts], axis=2)


def slice_operator(fn, cfg, dtype=torch.float64):
    """Matrix of the per-slice operator from basis inputs (N = basis index, C = 1): (total_out, total_in)."""
    shapes = input_shapes(cfg)
    sizes = [int(np.prod(s)) for s in shapes]
    tot = sum(sizes)
    I = np.eye(tot)
    ins, o = [], 0
    for s, n in zip(shapes, sizes):
        ins.append(torch.tensor(I[:, o:o + n].reshape((tot, 1) + s), dtype=dtype))
        o += n
    out = per_slice(fn(ins))[:, 0]            # (tot_in, total_out)
    return out.T


def pack(x_flat, cfg, dtype=torch.float64):
    """(N,C,total_in) numpy -> list of input tensors."""
    shapes = input_shapes(cfg)
    ins, o = [], 0
    for s in shapes:
        n = int(np.prod(s))
        ins.append(torch.tensor(np.ascontiguousarray(x_flat[:, :, o:o + n]).reshape(x_flat.shape[:2] + s), dtype=dtype))
        o += n
    return ins


def total_in(cfg):
    return sum(int(np.prod(s)) for s in input_shapes(cfg))


def make_flat(recipe, cfg, N, C):
    """Content for all inputs of a configuration as (N,C,total_in): every input tensor is generated in its own
    geometry (so that spatially structured recipes - gratings, ramps - are images, not reshaped vectors)."""
    from pwv import core
    parts = []
    for i, s in enumerate(input_shapes(cfg)):
        a = core.make({**recipe, 'seed': int(recipe['seed']) + 7919 * i}, (N, C) + tuple(s))
        parts.append(a.reshape(N, C, -1))
    return np.concatenate(parts, axis=2)
