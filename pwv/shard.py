"""Child process: runs one shard of one property's search, or a replay.

usage: python -B -m pwv.shard PROP TIER SHARD K SEED OUT
       python -B -m pwv.shard PROP replay PATH OUT
"""
import importlib
import json
import logging
import os
import sys
import time
import warnings

warnings.filterwarnings('ignore')
logging.disable(logging.WARNING)


def _setup_lib():
    import torch
    torch.set_num_threads(1)
    import pytorch_wavelets
    from pwv import core
    here = os.path.realpath(pytorch_wavelets.__file__)
    want = os.path.realpath(core.REPO)
    if not here.startswith(want + os.sep):
        print('HARNESS-ERROR pytorch_wavelets imported from %s, not %s' %
              (here, want))
        sys.exit(2)


def load_prop(pid):
    return importlib.import_module('pwv.props.' + pid.lower())


def derive_seed(*parts):
    import hashlib
    h = hashlib.sha256(('/'.join(str(p) for p in parts)).encode()).hexdigest()
    return int(h[:12], 16)


def main(argv):
    pid = argv[1]
    _setup_lib()
    from pwv import core
    prop = load_prop(pid)
    rec = core.Recorder(pid)
    t0 = time.time()
    if argv[2] == 'replay':
        path, out = argv[3], argv[4]
        with open(path) as f:
            doc = json.load(f)
        case = doc['case'] if 'case' in doc else doc
        res = core.execute(prop, case, rec)
        rec.add(case, res)
        with open(out, 'w') as f:
            json.dump({'status': res.status, 'bucket': res.bucket,
                       'msg': res.msg, 'kf': res.kf, 'labels': res.labels,
                       'harness_errors': rec.harness_errors}, f)
        return 0

    tier, shard, K, seed, out = argv[2], int(argv[3]), int(argv[4]), \
        int(argv[5]), argv[6]
    os.environ['PWV_NSHARDS'] = str(K)
    deadline = t0 + float(os.environ.get(
        'PWV_DEADLINE_S', '900' if tier == 'quick' else '14400'))
    kf_status = {}
    if shard == 0:
        # witnesses of open known findings first, then the committed corpus
        for entry, case in core.kf_witnesses(pid):
            res = core.execute(prop, case, rec)
            rec.add(case, res)
            if res.status == 'known' and res.kf == entry['id']:
                kf_status.setdefault(entry['id'], []).append('reproduces')
            elif res.status == 'violation':
                kf_status.setdefault(entry['id'], []).append('changed')
                if res.bucket not in rec.suppressed:
                    rec.violations.append({
                        'bucket': res.bucket, 'msg': res.msg, 'case': case,
                        'first_case': case, 'first_bucket': res.bucket,
                        'shrink_executions': 0, 'origin': 'kf-witness'})
                    rec.suppressed.add(res.bucket)
            else:
                kf_status.setdefault(entry['id'], []).append('gone')
        cdir = os.path.join(core.VERIF, 'corpus', pid)
        cases = []
        if os.path.isdir(cdir):
            for fn in sorted(os.listdir(cdir)):
                if fn.endswith('.json'):
                    with open(os.path.join(cdir, fn)) as f:
                        d = json.load(f)
                    cases.append(d['case'] if 'case' in d else d)
        if hasattr(prop, 'corpus'):
            cases.extend(prop.corpus())
        core.replay_cases(prop, cases, rec, 'corpus')
    units = prop.plan(tier)
    scale = float(os.environ.get('PWV_BUDGET_SCALE', '1'))
    mine = [(i, u) for i, u in enumerate(units) if i % K == shard]
    for i, u in mine:
        if time.time() > deadline:
            rec.truncated = True
            break
        if rec.harness_errors:
            break
        u = dict(u)
        u['n'] = max(1, int(round(u['n'] * scale)))
        u['tier'] = tier
        for attempt in range(3):
            found = core.run_unit(prop, u, derive_seed(seed, pid, i, attempt),
                                  rec, deadline)
            if not found or len(rec.violations) >= 4:
                break
    d = rec.dump()
    d['kf_status'] = kf_status
    d['wall_s'] = time.time() - t0
    d['n_units_total'] = len(units)
    with open(out, 'w') as f:
        json.dump(d, f)
    return 0


if __name__ == '__main__':
    sys.exit(main(sys.argv))
