"""Parent runner: ./check <ID> --tier quick|thorough [--replay PATH] [--shards K]

Spawns K fresh interpreters (one shard each), merges their results, writes
evidence/<ID>.json, prints VIOLATION / KNOWN-FINDING lines and sets the exit
status: 0 held, 1 violation, 2 harness error."""
import argparse
import hashlib
import importlib
import json
import os
import shutil
import subprocess
import sys
import time

VERIF = os.path.dirname(os.path.dirname(os.path.abspath(__file__)))
PY = '/venv/bin/python'
WHEELS = '/opt/veriftools/wheels'


def child_env(repo):
    env = dict(os.environ)
    deps = os.path.join(VERIF, '.deps')
    env['PYTHONPATH'] = os.pathsep.join([repo, VERIF, deps])
    env['PYTHONHASHSEED'] = '0'
    env['PYTHONDONTWRITEBYTECODE'] = '1'
    env['OMP_NUM_THREADS'] = '1'
    env['MKL_NUM_THREADS'] = '1'
    env['PWV_REPO'] = repo
    env['PIP_NO_INDEX'] = '1'
    env.setdefault('PYTORCH_WAVELETS_VERIF', '1')
    return env


def ensure_deps():
    """Idempotent offline install of hypothesis into /venv if it is missing."""
    r = subprocess.run([PY, '-c', 'import hypothesis'], capture_output=True)
    if r.returncode != 0:
        subprocess.run([PY, '-m', 'pip', 'install', '--no-index', '--quiet',
                        '--find-links', WHEELS, 'hypothesis'], check=False)
        r = subprocess.run([PY, '-c', 'import hypothesis'],
                           capture_output=True)
        if r.returncode != 0:
            print('HARNESS-ERROR hypothesis cannot be installed offline')
            sys.exit(2)


def ensure_atheris():
    deps = os.path.join(VERIF, '.deps')
    env = dict(os.environ, PYTHONPATH=deps)
    if subprocess.run([PY, '-c', 'import atheris'], env=env, capture_output=True).returncode == 0:
        return True
    subprocess.run([PY, '-m', 'pip', 'install', '--no-index', '--quiet', '--find-links', WHEELS, '--target', deps,
                    'atheris'], capture_output=True)
    return subprocess.run([PY, '-c', 'import atheris'], env=env, capture_output=True).returncode == 0


def validate_evidence(ev):
    """The constraints of EVIDENCE.schema.json that apply to this level."""
    errs = []
    for k in ('property_id', 'tier', 'seed', 'level', 'coverage', 'wall_s'):
        if k not in ev:
            errs.append('missing ' + k)
    if ev.get('tier') not in ('quick', 'thorough'):
        errs.append('tier')
    if not isinstance(ev.get('seed'), int):
        errs.append('seed')
    cov = ev.get('coverage', {})
    if not (isinstance(cov.get('evaluations'), int) and
            cov['evaluations'] >= 1):
        errs.append('coverage.evaluations')
    if not (isinstance(cov.get('distinct_nontrivial'), int) and
            cov['distinct_nontrivial'] >= 2):
        errs.append('coverage.distinct_nontrivial < 2')
    if not isinstance(cov.get('rule'), str):
        errs.append('coverage.rule')
    if not (isinstance(cov.get('samples'), list) and len(cov['samples']) >= 1):
        errs.append('coverage.samples')
    try:
        import jsonschema
        with open('/root/.vp/EVIDENCE.schema.json') as f:
            jsonschema.validate(ev, json.load(f))
    except ImportError:
        pass
    except FileNotFoundError:
        pass
    except Exception as e:      # noqa
        errs.append('schema: %s' % str(e)[:200])
    return errs


def main():
    ap = argparse.ArgumentParser()
    ap.add_argument('prop')
    ap.add_argument('--tier', default=os.environ.get('VERIF_TIER', 'quick'),
                    choices=['quick', 'thorough'])
    ap.add_argument('--replay')
    ap.add_argument('--shards', type=int)
    ap.add_argument('--no-evidence', action='store_true')
    a = ap.parse_args()
    pid = a.prop.upper()
    seed = int(os.environ.get('VERIF_SEED', '1') or '1')
    repo = os.environ.get('PWV_REPO', '/repo')
    ensure_deps()
    env = child_env(repo)
    work = os.path.join(VERIF, '.work', pid + '-' + str(os.getpid()))
    shutil.rmtree(work, ignore_errors=True)
    os.makedirs(work)
    try:
        if a.replay:
            return replay(pid, a.replay, env, work)
        return search(pid, a, seed, env, work)
    finally:
        shutil.rmtree(work, ignore_errors=True)


def replay(pid, path, env, work):
    out = os.path.join(work, 'replay.json')
    r = subprocess.run([PY, '-B', '-m', 'pwv.shard', pid, 'replay',
                        os.path.abspath(path), out], env=env, cwd=VERIF)
    if r.returncode != 0 or not os.path.exists(out):
        print('HARNESS-ERROR replay failed (exit %s)' % r.returncode)
        return 2
    with open(out) as f:
        d = json.load(f)
    if d['harness_errors']:
        print('HARNESS-ERROR %s' % d['harness_errors'][0]['error'])
        print(d['harness_errors'][0]['traceback'])
        return 2
    print('replay %s: status=%s bucket=%s %s' % (path, d['status'],
                                                  d['bucket'], d['msg']))
    if d['status'] == 'violation':
        print('VIOLATION property=%s replay=%s' % (pid, os.path.abspath(path)))
        return 1
    if d['status'] == 'known':
        print('KNOWN-FINDING: property=%s %s %s' % (pid, d['kf'], d['msg']))
    return 0


def search(pid, a, seed, env, work):
    t0 = time.time()
    sys.path.insert(0, VERIF)
    K = a.shards or int(os.environ.get(
        'PWV_SHARDS', '8' if a.tier == 'quick' else '16'))
    procs = []
    for i in range(K):
        out = os.path.join(work, 'shard%d.json' % i)
        log = open(os.path.join(work, 'shard%d.log' % i), 'w')
        p = subprocess.Popen([PY, '-B', '-m', 'pwv.shard', pid, a.tier,
                              str(i), str(K), str(seed), out],
                             env=env, cwd=VERIF, stdout=log,
                             stderr=subprocess.STDOUT)
        procs.append((p, out, log))
    prop_mod = importlib.import_module('pwv.props.' + pid.lower())
    n_fuzz = 0
    if a.tier == 'thorough' and hasattr(prop_mod, 'fuzz_case') and ensure_atheris():
        # secondary engine: coverage-guided fuzzing of the same run_case, from an empty corpus and from a
        # corpus directory that persists between the two campaigns of this run
        for j in range(2):
            out = os.path.join(work, 'fuzz%d.json' % j)
            log = open(os.path.join(work, 'fuzz%d.log' % j), 'w')
            cdir = os.path.join(work, 'fuzzcorpus%d' % j)
            p = subprocess.Popen([PY, '-B', '-m', 'pwv.fuzz', pid, str(int(prop_mod.FUZZ_RUNS)), str(seed + j), out, cdir],
                                 env=env, cwd=VERIF, stdout=log, stderr=subprocess.STDOUT)
            procs.append((p, out, log))
            n_fuzz += 1
    shards = []
    bad = []
    for i, (p, out, log) in enumerate(procs):
        rc = p.wait()
        log.close()
        if i >= K:
            # a fuzz campaign: libFuzzer's own exit status is not a verdict; its result file is
            if os.path.exists(out):
                with open(out) as f:
                    shards.append(json.load(f))
            else:
                print('note: fuzz campaign %d produced no result file (inconclusive, ignored)' % (i - K))
            continue
        if rc != 0 or not os.path.exists(out):
            with open(os.path.join(work, 'shard%d.log' % i)) as f:
                bad.append('shard %d exit %s: %s' % (i, rc, f.read()[-2000:]))
            continue
        with open(out) as f:
            shards.append(json.load(f))
    if bad:
        for b in bad:
            print('HARNESS-ERROR ' + b)
        return 2
    herr = [e for s in shards for e in s['harness_errors']]
    if herr:
        print('HARNESS-ERROR %s\n%s' % (herr[0]['error'], herr[0]['traceback']))
        print('case: ' + json.dumps(herr[0]['case']))
        return 2

    # ---- merge
    def merge_counts(name):
        o = {}
        for s in shards:
            for k, v in s[name].items():
                o[k] = o.get(k, 0) + v
        return o
    evaluations = sum(s['evaluations'] for s in shards)
    keys = set()
    for s in shards:
        keys.update(s['keys'])
    labels = merge_counts('labels')
    status_counts = merge_counts('status_counts')
    kf_hits = merge_counts('kf_hits')
    metrics = {}
    for s in shards:
        for k, v in s['metrics'].items():
            metrics[k] = max(metrics.get(k, v), v)
    kf_status = {}
    for s in shards:
        for k, v in s.get('kf_status', {}).items():
            kf_status.setdefault(k, []).extend(v)
    samples = [x for s in shards for x in s['samples']]
    if len(samples) > 10:
        step = (len(samples) - 1) / 9.0
        samples = [samples[int(round(i * step))] for i in range(10)]
    violations = []
    seen = set()
    for s in shards:
        for v in s['violations']:
            if v['bucket'] in seen:
                continue
            seen.add(v['bucket'])
            violations.append(v)

    # ---- known findings (open entries only; the file is read-only here)
    from pwv import core
    kf_lines = []
    for e in core.known_findings().get('open', []):
        if pid not in e['properties']:
            continue
        st = kf_status.get(e['id'], [])
        hits = kf_hits.get(e['id'], 0)
        if 'reproduces' in st or hits:
            kf_lines.append('KNOWN-FINDING: property=%s %s %s (witness %s, '
                            'generated hits=%d)' % (
                                pid, e['id'], e['what'],
                                'reproduces' if 'reproduces' in st else
                                ('n/a' if not st else '/'.join(sorted(set(st)))),
                                hits))

    # ---- replay files
    vio_lines = []
    for v in violations:
        h = hashlib.md5(json.dumps(v['case'], sort_keys=True).encode()
                        ).hexdigest()[:12]
        d = os.path.join(VERIF, 'replays', pid)
        os.makedirs(d, exist_ok=True)
        path = os.path.join(d, h + '.json')
        with open(path, 'w') as f:
            json.dump({'property': pid, 'bucket': v['bucket'],
                       'msg': v['msg'], 'case': v['case'],
                       'first_case': v.get('first_case'),
                       'seed': seed, 'tier': a.tier}, f, indent=1)
        vio_lines.append((path, v))

    prop = importlib.import_module('pwv.props.' + pid.lower())
    ev = {
        'property_id': pid, 'tier': a.tier, 'seed': seed,
        'level': 'exploration',
        'coverage': {
            'evaluations': int(evaluations),
            'distinct_nontrivial': int(len(keys)),
            'rule': prop.RULE,
            'samples': samples,
            'labels': dict(sorted(labels.items())),
            'status_counts': status_counts,
            'oracle_undefined': status_counts.get('skip', 0),
            'allowed_rejections': sum(s['allowed_rejections'] for s in shards),
            'known_finding_hits': kf_hits,
            'known_finding_witnesses': kf_status,
            'suppressed_duplicate_failures': merge_counts('suppressed_hits'),
            'shrink_evaluations': sum(s['shrink_evaluations'] for s in shards),
            'max_seen': {k: float('%.4g' % v) for k, v in sorted(metrics.items())},
            'shards': K,
            'fuzz_campaigns': n_fuzz,
            'units': sum(len(s['units']) for s in shards),
            'units_planned': shards[0]['n_units_total'] if shards else 0,
            'truncated_by_deadline': any(s['truncated'] for s in shards),
            'exhaustive': bool(getattr(prop, 'EXHAUSTIVE', False)),
            'strata_exhaustive': getattr(prop, 'STRATA', {}).get(a.tier, ''),
        },
        'assumptions': list(prop.ASSUMPTIONS),
        'wall_s': round(time.time() - t0, 2),
        'violations': len(violations),
    }
    errs = validate_evidence(ev)
    if not a.no_evidence:
        os.makedirs(os.path.join(VERIF, 'evidence'), exist_ok=True)
        with open(os.path.join(VERIF, 'evidence', pid + '.json'), 'w') as f:
            json.dump(ev, f, indent=1, sort_keys=False)
    print('%s %s seed=%d: %d cases, %d distinct non-trivial, %d units, '
          '%.1fs, status=%s' % (pid, a.tier, seed, evaluations, len(keys),
                                ev['coverage']['units'], ev['wall_s'],
                                status_counts))
    floors = getattr(prop, 'LABEL_FLOORS', {})
    for lab, frac in floors.items():
        got = labels.get(lab, 0) / max(1, evaluations)
        if got < frac:
            errs.append('generator floor: label %s only %.3f < %.3f' %
                        (lab, got, frac))
    for line in kf_lines:
        print(line)
    for path, v in vio_lines:
        print('  violation bucket=%s: %s' % (v['bucket'], v['msg']))
        print('  minimal case: ' + json.dumps(v['case'], sort_keys=True))
        print('VIOLATION property=%s replay=%s' % (pid, path))
    if vio_lines:
        return 1
    if errs:
        print('HARNESS-ERROR evidence/generator: ' + '; '.join(errs))
        return 2
    return 0


if __name__ == '__main__':
    try:
        rc = main()
    except SystemExit:
        raise
    except BaseException:       # noqa: anything that escapes is a harness error, never a verdict
        import traceback
        traceback.print_exc()
        print('HARNESS-ERROR the runner itself failed')
        rc = 2
    sys.exit(rc)
