"""Reference DTCWT scattering: the NumPy dtcwt transform composed with the
formulas of property C08 (float64)."""
import numpy as np
from hypothesis import strategies as st

from pwv import dtu

BIORTS1 = ['near_sym_a', 'near_sym_b', 'near_sym_b_bp', 'antonini', 'legall']
QSHIFTS2 = ['qshift_a', 'qshift_b', 'qshift_c', 'qshift_d', 'qshift_06']
BIASES = [0.0, 1e-6, 1e-3, 1e-2, 1e-2, 1.0, 10.0]


def family_strategy(order):
    if order == 1:
        return st.sampled_from(BIORTS1).map(lambda b: (b, None))
    return st.one_of(
        st.tuples(st.sampled_from(['near_sym_a', 'near_sym_b', 'antonini', 'legall']), st.sampled_from(QSHIFTS2)),
        st.sampled_from([('near_sym_b_bp', 'qshift_b_bp'), ('near_sym_a', 'qshift_a'), ('near_sym_b', 'qshift_b')]))


def bias_strategy(positive=False):
    pool = [b for b in BIASES if b > 0 or not positive]
    return st.one_of(st.sampled_from(pool), st.floats(1e-4 if positive else 1e-6, 20.0, allow_nan=False).map(
        lambda v: float('%.3g' % v)))


def _xfm(biort, qshift):
    from dtcwt.numpy import Transform2d
    key = ('scat', biort, qshift)
    if key not in dtu._REF:
        dtu._REF[key] = Transform2d(biort=biort) if qshift is None else Transform2d(biort=biort, qshift=qshift)
    return dtu._REF[key]


def ref_fwd(xfm, X, J):
    """X (N,C,H,W) -> yl (N,C,h,w), yh list of (N,C,6,h,w) complex."""
    N, C = X.shape[:2]
    yls, yhs = [], [[] for _ in range(J)]
    for n in range(N):
        for c in range(C):
            p = xfm.forward(np.ascontiguousarray(X[n, c], dtype=np.float64), nlevels=J)
            yls.append(p.lowpass)
            for j in range(J):
                yhs[j].append(p.highpasses[j].transpose(2, 0, 1))
    yl = np.stack(yls).reshape((N, C) + yls[0].shape)
    yh = [np.stack(v).reshape((N, C) + v[0].shape) for v in yhs]
    return yl, yh


def pool(a):
    s = a.shape
    return a.reshape(s[:-2] + (s[-2] // 2, 2, s[-1] // 2, 2)).mean(axis=(-3, -1))


def mag(w, b):
    return np.sqrt(w.real ** 2 + w.imag ** 2 + b ** 2) - b


def ref_scat1(biort, X, b, colour):
    """First-order layer on an even-sized X (N,C,H,W)."""
    yl, yh = ref_fwd(_xfm(biort, None), X, 1)
    lp = pool(yl)
    if colour:
        w = yh[0]
        M = np.sqrt((w.real ** 2 + w.imag ** 2).sum(axis=1) + b ** 2) - b       # (N,6,h,w)
        return np.concatenate([lp, M], axis=1)
    M = mag(yh[0], b).transpose(0, 2, 1, 3, 4)                                  # N,6,C,h,w
    N, _, C, h, w = M.shape
    return np.concatenate([lp, M.reshape(N, 6 * C, h, w)], axis=1)


def ref_scat2(biort, qshift, X, b, colour):
    """Second-order two-scale layer on X (N,C,H,W) with H,W multiples of 8."""
    xfm = _xfm(biort, qshift)
    N, C, H, W = X.shape
    yl, yh = ref_fwd(xfm, X, 2)
    S0 = pool(yl)
    if colour:
        M1 = np.sqrt((yh[0].real ** 2 + yh[0].imag ** 2).sum(axis=1) + b ** 2) - b     # N,6,H/2,W/2
        M2 = np.sqrt((yh[1].real ** 2 + yh[1].imag ** 2).sum(axis=1) + b ** 2) - b     # N,6,H/4,W/4
        yl1, yh1 = ref_fwd(xfm, M1, 1)
        S1_1 = pool(yl1)
        S2_1 = mag(yh1[0], b).transpose(0, 2, 1, 3, 4).reshape(N, 36, H // 4, W // 4)
        return np.concatenate([S0, S1_1, M2, S2_1], axis=1)
    M1 = mag(yh[0], b).transpose(0, 2, 1, 3, 4)          # N,6,C,h,w
    S1_2 = mag(yh[1], b).transpose(0, 2, 1, 3, 4)
    M1 = M1.reshape(N, 6 * C, H // 2, W // 2)
    yl1, yh1 = ref_fwd(xfm, M1, 1)
    S1_1 = pool(yl1).reshape(N, 6, C, H // 4, W // 4)
    S2_1 = mag(yh1[0], b).transpose(0, 2, 1, 3, 4).reshape(N, 36, C, H // 4, W // 4)
    z = np.concatenate([S0[:, None], S1_1, S1_2, S2_1], axis=1)
    return z.reshape(N, 49 * C, H // 4, W // 4)


def n_low_channels(order, C, colour):
    """Number of leading channels that are lowpass (may be negative)."""
    return C if order == 1 else (3 if colour else None)


def magnitude_mask(order, C, colour, nch):
    """Boolean mask over output channels: True where the channel is a magnitude."""
    m = np.ones(nch, dtype=bool)
    if order == 1:
        m[:C] = False
    elif colour:
        m[:3] = False          # S0 (3)
        m[3:9] = False         # pooled lowpass of the first-order magnitudes: averages of non-negatives but
        #                        filtered by a lowpass with negative taps -> may be negative
    else:
        # band-major: band 0 = S0, bands 1..6 = lowpassed first-order magnitudes
        m[:7 * C] = False
    return m
