"""Shared DWT plumbing: wavelet / size generators, PyWavelets reference
operators, pyramid flattening, and the predicates of the known findings."""
import contextlib

import numpy as np
import pywt
import torch
from hypothesis import strategies as st

MODES5 = ['zero', 'symmetric', 'reflect', 'periodic', 'periodization']
WAVES = list(pywt.wavelist(kind='discrete'))
FAMILIES = {}
for _w in WAVES:
    FAMILIES.setdefault(pywt.Wavelet(_w).family_name, []).append(_w)
FAMILY_LISTS = [FAMILIES[k] for k in sorted(FAMILIES)]
_LEN = {w: pywt.Wavelet(w).dec_len for w in WAVES}


def flen(w):
    return _LEN[w]


@contextlib.contextmanager
def default_dtype(dt):
    old = torch.get_default_dtype()
    torch.set_default_dtype(dt)
    try:
        yield
    finally:
        torch.set_default_dtype(old)


def tdt(name):
    return torch.float64 if name == 'f64' else torch.float32


def ndt(name):
    return np.float64 if name == 'f64' else np.float32


# -------------------------------------------------------------- generators
def wavelet_strategy(max_len=None, names=None):
    """Family first, then member, so long biorthogonal filters are as likely
    as db1."""
    if names is not None:
        return st.sampled_from(list(names))
    fams = [[w for w in f if max_len is None or flen(w) <= max_len]
            for f in FAMILY_LISTS]
    fams = [f for f in fams if f]
    return st.sampled_from(fams).flatmap(st.sampled_from)


def size_strategy(L, J, cap=96, lo=2):
    """Lengths built around the code's branch points: tiny, around the filter
    length, around 2L, multiples of 2^J and their neighbours, and uniform."""
    def clip(v):
        return max(lo, min(cap, v))
    P = 2 ** J
    opts = [
        st.integers(lo, min(cap, 8)),
        st.integers(clip(L - 2), clip(L + 2)),
        st.sampled_from([clip(2 * L - 1), clip(2 * L), clip(2 * L + 1)]),
        st.tuples(st.integers(1, max(1, cap // P)),
                  st.sampled_from([-1, 0, 0, 1])).map(
                      lambda t: clip(t[0] * P + t[1])),
        # odd exactly at level t: (2m+1)*2^t
        st.tuples(st.integers(0, max(0, J - 1)), st.integers(0, max(0, cap // 2))).map(
            lambda t: clip((2 * (t[1] % max(1, cap // (2 ** (t[0] + 1)))) + 1) * 2 ** t[0])),
        st.integers(lo, cap),
    ]
    return st.one_of(*opts)


# -------------------------------------------------------------- size recursion
def even_up(n):
    return n + (n % 2)


def level_lengths(n, L, mode, J):
    """Input length of every level (ns) and coefficient length (ks)."""
    ns, ks = [], []
    cur = n
    for _ in range(J):
        ns.append(cur)
        cur = pywt.dwt_coeff_len(cur, L, mode)
        ks.append(cur)
    return ns, ks


def d1_analysis(ns, L, mode):
    """KF-D1-analysis: periodization and some level shorter than the filter
    (after rounding the length up to even)."""
    return mode == 'periodization' and any(even_up(n) < L for n in ns)


def d1_synthesis(ks, L, mode):
    """KF-D1-synthesis: periodization and some level with 2k < L-2."""
    return mode == 'periodization' and any(2 * k < L - 2 for k in ks)


def reflect_may_raise(ns, L, mode):
    """torch reflect padding needs pad < size: the library may (and does)
    raise exactly when some level is shorter than the filter."""
    if mode != 'reflect':
        return False
    return any((n % 2 == 0 and n <= L - 2) or (n % 2 == 1 and n <= L - 1)
               for n in ns)


# -------------------------------------------------------------- flattening
def flat1(yl, yh):
    """(B,k) lowpass + list of (B,k_j) finest first -> (B, total)."""
    return np.concatenate([yl.reshape(yl.shape[0], -1)] +
                          [h.reshape(h.shape[0], -1) for h in yh], axis=1)


def to_np(t):
    return t.detach().cpu().numpy().astype(np.float64)


def ref_wavedec(x, w, mode, J):
    """PyWavelets 1-D reference on (..., n): (yl, [yh finest first])."""
    c = pywt.wavedec(x, w, mode=mode, level=J, axis=-1)
    return c[0], c[1:][::-1]


def ref_wavedec2(x, w, mode, J):
    """PyWavelets 2-D reference on (..., H, W): yl and yh[j] of shape
    (..., 3, h, w) stacked (cH, cV, cD), finest first. w may be a pair
    (wave_axis_rows(-2), wave_axis_cols(-1))."""
    c = pywt.wavedec2(x, w, mode=mode, level=J, axes=(-2, -1))
    yh = [np.stack(t, axis=-3) for t in c[1:][::-1]]
    return c[0], yh


def ref_waverec(yl, yh, w, mode):
    return pywt.waverec([yl] + list(yh[::-1]), w, mode=mode, axis=-1)


def ref_waverec2(yl, yh, w, mode):
    """yh[j] may be None (zeros)."""
    c = [yl]
    for h in yh[::-1]:
        if h is None:
            c.append((None, None, None))
        else:
            c.append(tuple(np.take(h, i, axis=-3) for i in range(3)))
    return pywt.waverec2(c, w, mode=mode, axes=(-2, -1))


def basis(shape):
    """All canonical basis tensors of a slice of the given shape, stacked on a
    new leading axis: (prod(shape), *shape)."""
    n = int(np.prod(shape))
    return np.eye(n).reshape((n,) + tuple(shape))


# -------------------------------------------------------------- pyramids
def pyr_shapes(size, L, mode, J):
    """Forward-compatible coefficient shapes from PyWavelets' length rule
    (never from the library's forward): (lowpass shape, [detail shapes finest
    first]); 2-D details carry the leading 3."""
    per_axis = [level_lengths(n, L, mode, J)[1] for n in size]
    if len(size) == 1:
        ks = per_axis[0]
        return (ks[-1],), [(k,) for k in ks]
    kh, kw = per_axis
    return (kh[-1], kw[-1]), [(3, a, b) for a, b in zip(kh, kw)]


def basis_rows(total, k, cap=640, sub=48):
    """Identity (total x total) if small, else `sub` generated unit rows."""
    if total <= cap:
        return np.eye(total), True
    idx = np.random.RandomState(k).choice(total, sub, replace=False)
    M = np.zeros((sub, total))
    M[np.arange(sub), idx] = 1.0
    return M, False


def split_flat(M, lo_shape, hi_shapes):
    """(T,total) -> yl (T,*lo), [yh_j (T,*hi_j)] in flat1 order."""
    T = M.shape[0]
    o = 0
    n = int(np.prod(lo_shape))
    yl = M[:, o:o + n].reshape((T,) + tuple(lo_shape))
    o += n
    yh = []
    for s in hi_shapes:
        n = int(np.prod(s))
        yh.append(M[:, o:o + n].reshape((T,) + tuple(s)))
        o += n
    assert o == M.shape[1]
    return yl, yh


def pyr_total(lo_shape, hi_shapes):
    return int(np.prod(lo_shape)) + sum(int(np.prod(s)) for s in hi_shapes)


def crop(a, size):
    """Crop the trailing len(size) axes of a to `size`."""
    sl = (Ellipsis,) + tuple(slice(0, n) for n in size)
    return a[sl]


def op_cap(dim, L):
    """Largest number of basis inputs for which the full operator is
    extracted; beyond it a generated subset of columns is used. Long filters
    in 2-D make every level ~L x L whatever the image size, so they get the
    subset earlier (cost, not correctness)."""
    if dim == 1:
        return 640
    return 640 if L < 20 else 96


_BYLEN = {}
for _w in WAVES:
    _BYLEN.setdefault(flen(_w), []).append(_w)


def sibling(w):
    """Another wavelet with the same filter length (None if there is none)."""
    sibs = [x for x in _BYLEN[flen(w)] if x != w and
            not np.allclose(pywt.Wavelet(x).dec_lo, pywt.Wavelet(w).dec_lo)]
    if not sibs:
        return None
    return sibs[(WAVES.index(w) * 7) % len(sibs)]


def reused_module(make, make_sibling, warm):
    """A module that has a past: built for a sibling wavelet of the same filter length, used once (warm(m)), then
    given the right filters through load_state_dict. Anything cached per module / per buffer address during the
    first life must not leak into the second."""
    from pwv import core
    # the first life happens in ordinary (grad-recording) mode whatever context the case itself runs in
    with torch.inference_mode(False), torch.enable_grad():
        m = make_sibling()
        core.libcall(warm, m)       # ordinary use of the library: an exception here is the library's
    fresh = make()
    try:
        m.load_state_dict(fresh.state_dict())
    except RuntimeError:
        return fresh            # the sibling's buffers do not have the same shapes (any more): no reuse possible
    return m


def pyr_shapes_axes(size, Ls, mode, J):
    """pyr_shapes with one filter length per axis."""
    per_axis = [level_lengths(n, L, mode, J)[1] for n, L in zip(size, Ls)]
    if len(size) == 1:
        ks = per_axis[0]
        return (ks[-1],), [(k,) for k in ks]
    kh, kw = per_axis
    return (kh[-1], kw[-1]), [(3, a, b) for a, b in zip(kh, kw)]


def other_precision_call(m, shape, dtype, inverse_pyramid=None):
    """History step: call module m once with an input of the OTHER precision. The library may reject it (it does on
    the pinned tree) or compute; the outcome is ignored - what matters is that nothing is left behind."""
    other = torch.float32 if dtype == torch.float64 else torch.float64
    try:
        with torch.no_grad():
            if inverse_pyramid is None:
                m(torch.ones(shape, dtype=other))
            else:
                m(inverse_pyramid(other))
    except Exception:       # noqa
        pass


def backward_after_overwrite(r, module, outs, leaves, cts, what, pick=0):
    """History step for the adjoint properties: the forward pass has been recorded (outs from leaves); pull a cotangent
    back once, then overwrite the module's filters in place (load_state_dict, as fine-tuning / re-initialising code
    does) and pull the same cotangent back again through the SAME recorded graph. The gradient belongs to the function
    the forward pass computed: either autograd refuses (its saved-tensor version check; the pinned tree does), or the
    second pull-back equals the first. Returns False after recording a violation."""
    from pwv import core
    ok, g1 = core.lib(torch.autograd.grad, outs, leaves, cts, allow_unused=True, retain_graph=True)
    if not ok:
        return True                 # reported by the main part of the check
    sd = module.state_dict()
    if not sd:
        return True
    # all filters (pick % 3 == 0) or a single one: a refusal caused by one filter must not hide what happens with another
    keys = sorted(sd)
    chosen = set(keys) if pick % 3 == 0 else {keys[(pick // 3) % len(keys)]}
    if len(chosen) == len(keys):
        module.load_state_dict({k: (v * 1.5 + 0.25 if v.is_floating_point() else v) for k, v in sd.items()})
    else:
        with torch.no_grad():       # load_state_dict would copy_ into (and bump the version of) every entry
            for k in chosen:
                sd[k].copy_(sd[k] * 1.5 + 0.25)
    r.label('filters_overwritten_before_backward')
    ok, g2 = core.lib(torch.autograd.grad, outs, leaves, cts, allow_unused=True)
    if not ok:
        if 'inplace operation' in str(g2) or 'modified by an in' in str(g2):
            r.label('backward_refused_after_overwrite')
            return True
        r.fail('backward_after_overwrite_raise:' + g2.bucket, '%s: backward after the filters were overwritten raised: %s' % (what, g2))
        return False
    for a, b in zip(g1, g2):
        if (a is None) != (b is None):
            r.fail('backward_uses_later_filters', '%s: gradient present/absent differs after the filters were overwritten' % what)
            return False
        if a is not None:
            sc = max(float(a.abs().max()), 1e-300)
            d = float((a - b).abs().max())
            if not d <= 1e-9 * sc:
                r.fail('backward_uses_later_filters', '%s: the forward pass ran with the original filters, but after they were '
                       'overwritten in place the recorded graph back-propagates something else (differs by %.3g of max %.3g) '
                       'instead of refusing' % (what, d, sc))
                return False
    return True


def snapshot_out(out):
    """(yl, yh-list) as returned by a forward module: identities and values, to be compared after later calls."""
    yl, yh = out
    ts = [yl] + list(yh)
    return [id(t) for t in yh], [t.detach().clone() for t in ts]


def returned_intact(r, out, snap, what):
    """What a call returned belongs to the caller: later calls of the same module must not touch the list or tensors."""
    ids, vals = snap
    yl, yh = out
    ts = [yl] + list(yh)
    if [id(t) for t in yh] != ids or len(ts) != len(vals) or any(
            tuple(a.shape) != tuple(b.shape) or not torch.equal(a.detach(), b) for a, b in zip(ts, vals)):
        r.fail('returned_pyramid_overwritten', '%s: the pyramid returned by an earlier call was modified by later calls of the same module' % what)
        return False
    return True
