"""C16 - dtype is preserved and float32 results are float32-accurate."""
import numpy as np
import torch
from hypothesis import strategies as st

from pwv import core, dwtu, xf
from pwv.core import Result, lib

ID = 'C16'
VIEWS = ['contiguous', 'transposed_storage', 'step2_slice', 'expanded_batch', 'channels_last', 'offset_slice']
RULE = ('Hypothesis draws any transform configuration of the C07 pool plus the two scattering layers, N, C, an input recipe with '
        'emphasis on wide dynamic range (randn*exp(8 randn)), offsets (1e3 + 1e-3 randn) and 1e+-6 scalings, a view recipe '
        '(transposed storage, step-2 slice, stride-0 expanded batch, channels_last, offset slice) and a conversion (.double() of a '
        'float32-built module / .float() of a float64-built one). Oracles: (a) every output and gradient has the input dtype, None '
        'levels included; (b) a converted module equals one constructed in that precision (buffers bitwise for .float(); values '
        'within eps32*gain*max|x| for .double()); (c) max|y32 - y64| <= 64*eps32*(gain*max|x| + bias term), gain = largest '
        'absolute row sum of the float64 operator extracted in the same case; (d) a non-contiguous input gives the values of its '
        'contiguous copy within 8*eps*gain*max|x|. Non-trivial = dynamic range >= 1e6 or strided view or converted module. '
        'Distinct = configuration without seeds.')
ASSUMPTIONS = ['float64 run of the same configuration is the reference for the float32 run',
               'scattering gain bound: sqrt(2)*(max sum|h|)^2 per DTCWT stage, bias term (1+gain_1)*bias']
STRATA = {'thorough': 'every transform kind (13)', 'quick': ''}
LABEL_FLOORS = {'strided_view': 0.4, 'converted_module': 0.3}
KINDS = xf.LINEAR_KINDS + xf.SCAT_KINDS


def plan(tier):
    if tier == 'quick':
        return [{'n': 200} for _ in range(16)]
    units = [{'n': 1500, 'kind': k} for k in KINDS]
    units += [{'n': 5000} for _ in range(16)]
    return units


@st.composite
def _case(draw, unit):
    cfg = draw(xf.cfg_strategy(kinds=[unit['kind']] if unit.get('kind') else KINDS))
    C = 3 if xf.needs_three_channels(cfg) else draw(st.sampled_from([1, 2, 3]))
    if cfg['kind'] in xf.SCAT_KINDS and draw(st.integers(0, 2)) == 0:
        cfg['bias'] = 0.0          # the plain modulus: no bias term to hide an absolute error behind
    kinds = ['gaussian', 'wide', 'wide', 'offset', 'sparse', 'ramp', 'constant', 'grating', 'grating']
    if cfg['kind'] in xf.SCAT_KINDS or cfg['kind'].startswith('dtcwt'):
        kinds = kinds + ['grating'] * 5          # orientation-selective transforms: half of the inputs are oriented
    return {'cfg': cfg, 'N': draw(st.sampled_from([1, 2, 3])), 'C': C,
            'rx': draw(core.recipe_strategy(kinds=kinds, scales=(0, 0, 0, 6, -6, -3, -4))),
            'view': draw(st.sampled_from(VIEWS)), 'convert': draw(st.sampled_from(['none', 'double', 'float'])),
            'k': draw(st.integers(0, 10**6))}


def strategy(unit):
    return _case(unit)


def strided(t, kind):
    """A non-contiguous tensor with the same values as t."""
    if kind == 'contiguous' or t.dim() < 3:
        return t
    if kind == 'transposed_storage':
        return t.transpose(-1, -2).contiguous().transpose(-1, -2)
    if kind == 'step2_slice':
        big = torch.zeros(t.shape[:-1] + (2 * t.shape[-1],), dtype=t.dtype)
        big[..., ::2] = t
        return big[..., ::2]
    if kind == 'expanded_batch':
        return t
    if kind == 'channels_last':
        return t.contiguous(memory_format=torch.channels_last) if t.dim() == 4 else t.transpose(0, 1).contiguous().transpose(0, 1)
    if kind == 'offset_slice':
        big = torch.zeros((t.shape[0] + 1,) + t.shape[1:-1] + (t.shape[-1] + 3,), dtype=t.dtype)
        big[1:, ..., 2:-1] = t
        return big[1:, ..., 2:-1]
    raise ValueError(kind)


def scat_gain(m, order):
    s1 = max(float(getattr(m, n).abs().sum()) for n in ('h0o', 'h1o', 'h2o') if hasattr(m, n))
    g1 = np.sqrt(2) * s1 ** 2
    if order == 1:
        return g1, g1
    s2 = max(float(getattr(m, n).abs().sum()) for n in ('h0a', 'h1a', 'h2a') if hasattr(m, n))
    g2 = np.sqrt(2) * s2 ** 2
    return g1 * max(g1, g2), g1


def run_case(case):
    r = Result()
    cfg = case['cfg']
    kind = cfg['kind']
    N, C = case['N'], case['C']
    is_scat = kind in xf.SCAT_KINDS
    functional = kind in ('afb2d', 'sfb2d', 'afb2d_nonsep', 'sfb2d_nonsep')
    conv = case['convert'] if not functional else 'none'
    tin = xf.total_in(cfg)
    x = xf.make_flat(case['rx'], cfg, N, C)
    if case['view'] == 'expanded_batch':
        x = np.repeat(x[:1], N, axis=0)
    if is_scat and core.maxabs(x) > 1e15:
        # the magnitude squares its operand: beyond ~1e18 the float32 intermediates overflow whatever the
        # implementation; keep the huge-dynamic-range shape of the input but bring it into float32's squared range
        x = x * (1e15 / core.maxabs(x))
        pre_label = 'rescaled_below_f32_square_overflow'
    elif is_scat and 0 < core.maxabs(x) < 1e-15:
        # likewise the squares of coefficients below ~1e-19 leave float32's normal range (1.2e-38) in any
        # implementation of sqrt(re^2 + im^2 + b^2): an all-tiny image is brought up to 1e-15 (thorough run, seed 4:
        # a grating sampled at its zero crossings, 6e-23)
        x = x * (1e-15 / core.maxabs(x))
        pre_label = 'rescaled_above_f32_square_underflow'
    else:
        pre_label = None
    x32 = x.astype(np.float32)
    if not np.all(np.isfinite(x32)):
        return r.skip('input overflows float32')
    x64 = x32.astype(np.float64)
    mx = core.maxabs(x64)
    nz = np.abs(x64[x64 != 0])
    wide = nz.size > 0 and nz.max() / nz.min() >= 1e6
    r.label(kind, pre_label, 'separate_row_col_filters' if cfg.get('wave_row') else None, 'view_' + case['view'], 'strided_view' if case['view'] != 'contiguous' else None,
            'converted_module' if conv != 'none' else None, 'convert_' + conv if conv != 'none' else None,
            'dynamic_range>=1e6' if wide else None, 'kind_' + case['rx']['kind'])
    r.nontrivial = bool(wide or case['view'] != 'contiguous' or conv != 'none')
    m64, f64 = xf.build(cfg, torch.float64)
    m32, f32 = xf.build(cfg, torch.float32)
    if is_scat:
        try:
            g, g1 = scat_gain(m64, 1 if kind == 'scat1' else 2)
        except Exception:       # noqa: filter attributes renamed: use the bound of the longest shipped filters
            g1 = 8.0
            g = g1 if kind == 'scat1' else g1 * g1
        bias_term = (1 + g1) * cfg['bias']
    else:
        A = xf.slice_operator(lambda ins: core.libcall(f64, ins), cfg)
        g, bias_term = max(1.0, core.gain(A)), 0.0

    def run(fn, arr, dt, view='contiguous', grad=False):
        ins = xf.pack(arr, cfg, dt)
        if view == 'expanded_batch':
            ins = [t[:1].expand(t.shape) for t in ins]
        else:
            ins = [strided(t, view) for t in ins]
        if grad:
            ins = [t.requires_grad_(True) for t in ins]
        outs = core.libcall(fn, ins)
        return ins, outs

    # (a)+(c): float32 vs float64, dtypes
    _, o64 = run(f64, x64, torch.float64)
    i32, o32 = run(f32, x32, torch.float32, grad=True)
    for t in o64:
        if t.dtype != torch.float64:
            return r.fail('dtype:' + kind, 'float64 input produced a %s output' % t.dtype)
    for t in o32:
        if t.dtype != torch.float32:
            return r.fail('dtype:' + kind, 'float32 input produced a %s output' % t.dtype)
    y64, y32 = xf.per_slice(o64), xf.per_slice(o32)
    if y64.shape != y32.shape:
        return r.fail('shape_depends_on_dtype:' + kind, 'float32 output %s, float64 output %s' % (y32.shape, y64.shape))
    bound = 64 * core.EPS32 * (g * mx + bias_term) + 1e-300
    okc, err = core.close(y32, y64, bound)
    r.metric('f32_err_over_eps32_scale', err / (core.EPS32 * (g * mx + bias_term) + 1e-300))
    if not okc:
        r.fail('float32_accuracy:' + kind, 'float32 result is further from float64 than 64*eps32*(gain*max|x|+bias): ' +
               core.first_mismatch(y32, y64, bound))
    # the plain call (nothing requires grad: what inference code does) must be just as accurate
    _, o32p = run(f32, x32, torch.float32)
    y32p = xf.per_slice(o32p)
    if y32p.shape != y64.shape:
        return r.fail('shape_depends_on_dtype:' + kind, 'float32 output %s, float64 output %s' % (y32p.shape, y64.shape))
    okc, err = core.close(y32p, y64, bound)
    if not okc:
        r.fail('float32_accuracy_plain_call:' + kind, 'float32 result of a call whose input does not require grad is further '
               'from float64 than 64*eps32*(gain*max|x|+bias): ' + core.first_mismatch(y32p, y64, bound))
    # gradient dtype
    diff = [t for t in o32 if t.requires_grad]
    if diff:
        ok, G = lib(torch.autograd.grad, [t.sum() for t in diff], i32, allow_unused=True)
        if not ok:
            r.fail('backward_raise:' + G.bucket, 'float32 backward raised: %s' % G)
        else:
            for gk in G:
                if gk is not None and gk.dtype != torch.float32:
                    r.fail('grad_dtype:' + kind, 'float32 input received a %s gradient' % gk.dtype)
    # (a) None levels keep the dtype
    if kind in ('dwt1_inv', 'dwt2_inv', 'dtcwt_inv') and cfg['J'] >= 1:
        for dt, m in ((torch.float64, m64), (torch.float32, m32)):
            ins = xf.pack(x64 if dt == torch.float64 else x32, cfg, dt)
            j = case['k'] % cfg['J']
            highs = [None if i == j else t for i, t in enumerate(ins[1:])]
            if kind == 'dtcwt_inv':
                from pwv.props.c06 import to_layout
                highs = [None if t is None else to_layout(t, cfg['o_dim'], cfg['ri_dim']) for t in highs]
            ok, out = lib(m, (ins[0], highs))
            if not ok:
                r.fail('none_level_raise:' + kind, 'inverse with a None level raised for %s coefficients: %s' % (dt, out))
            elif out.dtype != dt:
                r.fail('none_level_dtype:' + kind, 'inverse with a None level returned %s for %s coefficients' % (out.dtype, dt))
    # (b) conversions
    if conv == 'float' and m64 is not None:
        mc, fc = xf.build(cfg, torch.float64)
        if case['k'] % 2:
            run(fc, x64, torch.float64)       # the module has already been used before it is converted
            r.label('used_before_conversion')
        mc = mc.float()
        sd_c, sd_32 = dict(mc.state_dict()), dict(m32.state_dict())
        for k_, v in sd_32.items():
            if k_ not in sd_c or sd_c[k_].dtype != torch.float32 or not torch.equal(sd_c[k_], v):
                r.fail('float_conversion_buffers:' + kind, '.float() of a float64-built module: %s differs from the float32-built one' % k_)
                break
        ok, oc = lib(lambda: run(fc, x32, torch.float32)[1])
        if not ok:
            return r.fail('float_conversion_raise:' + kind, '.float() of a float64-built module raised on float32 input: %s' % oc)
        yc = xf.per_slice(oc)
        if any(t.dtype != torch.float32 for t in oc):
            r.fail('float_conversion_dtype:' + kind, '.float() module returned %s' % [t.dtype for t in oc])
        elif yc.shape != y32.shape or not np.array_equal(yc, y32):
            okc, err = core.close(yc, y32, 4 * core.EPS32 * (g * mx + bias_term) + 1e-300)
            if not okc:
                r.fail('float_conversion_values:' + kind, '.float() of a float64-built module differs from a float32-built one: ' +
                       core.first_mismatch(yc, y32, 4 * core.EPS32 * (g * mx + bias_term) + 1e-300))
            else:
                r.label('ulp_diff_after_conversion')
    if conv == 'double' and m32 is not None:
        mc, fc = xf.build(cfg, torch.float32)
        if case['k'] % 2:
            run(fc, x32, torch.float32)       # the module has already been used before it is converted
            r.label('used_before_conversion')
        mc = mc.double()
        ok, oc = lib(lambda: run(fc, x64, torch.float64)[1])
        if not ok:
            r.fail('double_conversion_raise:' + kind, '.double() of a float32-built module raised on float64 input: %s' % oc)
        else:
            if any(t.dtype != torch.float64 for t in oc):
                r.fail('double_conversion_dtype:' + kind, '.double() module returned %s' % [t.dtype for t in oc])
            yc = xf.per_slice(oc)
            okc, err = core.close(yc, y64, 64 * core.EPS32 * (g * mx + bias_term) + 1e-300)
            if not okc:
                r.fail('double_conversion_values:' + kind, '.double() of a float32-built module is further from the '
                       'float64-built one than float32 filter rounding allows: ' +
                       core.first_mismatch(yc, y64, 64 * core.EPS32 * (g * mx + bias_term) + 1e-300))
    # (d) strided input == contiguous copy
    if case['view'] != 'contiguous':
        for dt, fn, arr, ref, eps in ((torch.float64, f64, x64, y64, core.EPS64), (torch.float32, f32, x32, y32, core.EPS32)):
            ins, outs = run(fn, arr, dt, view=case['view'])
            if not any(not t.is_contiguous() for t in ins):
                r.label('view_was_contiguous')
            ys = xf.per_slice(outs)
            tol = 8 * eps * (g * mx + bias_term) + 1e-300
            okc, err = core.close(ys, ref, tol)
            if not okc:
                r.fail('strided_input:%s:%s' % (kind, case['view']), 'non-contiguous input (%s, %s) gives other values than its '
                       'contiguous copy: %s' % (case['view'], dt, core.first_mismatch(ys, ref, tol)))
    return r


LEVEL_TEXT = ('Generated-input search over every transform and both scattering layers: dtype of all outputs and gradients '
              '(None levels and converted modules included), float32-vs-float64 differential runs against the stated bound with '
              'the gain measured from the float64 operator of the same case, equivalence of converted and natively constructed '
              'modules, and strided-vs-contiguous inputs for five view recipes.')
LEVEL_TEXT += (' Also generated: oriented gratings and diagonal stripes in image geometry, the plain float32 call (nothing requires grad) besides the recording one, amplitudes up to 1e15 for scattering.')
LEVEL_NOTE = ('The float64 run is the reference; inputs emphasise wide dynamic range and offsets; sizes <= 12x12 (scattering '
              '<= 24x24); scattering gain is an analytic upper bound.')
TECHNIQUE = 'property-based testing (Hypothesis), differential float32/float64 and strided/contiguous runs with an a-priori error bound'
