"""C10 - DWT synthesis equals PyWavelets on arbitrary coefficient pyramids;
a None level reconstructs like zeros on the signal's extent."""
import numpy as np
import torch
from hypothesis import strategies as st

from pwv import core, dwtu
from pwv.core import Result, lib
from pwv.props import c01

ID = 'C10'
RULE = ('Generator of C01 plus a mask of highpass levels passed as None. Pyramid shapes are '
        'computed from (size, filter length, mode, J) with pywt.dwt_coeff_len, never by calling the '
        'forward transform; contents are basis pyramids (full synthesis operator, or 48..96 generated '
        'columns for big pyramids) and dense recipes. Oracle: pywt.waverec / waverec2 on the same '
        'pyramid; None levels compared with explicit zeros on the signal extent; dtype preserved. '
        'Non-trivial = J>=2 or odd size or some None level. Distinct = configuration without seeds.')
ASSUMPTIONS = ['PyWavelets waverec/waverec2 is the reference, including its rule of dropping one '
               'trailing lowpass sample when the lowpass is one longer than the detail band',
               'tolerance 1e-11*max(1,gain*max|c|) float64, 64*eps32*gain*max|c| float32']
STRATA = {'thorough': 'every (wavelet, mode, dim) combination: 106 x 5 x 2', 'quick': ''}
LABEL_FLOORS = {'odd': 0.25, 'J>=2': 0.3, 'some_None': 0.25, 'None_at_odd_level_with_finer_present': 0.02}
plan = c01.plan


@st.composite
def _case(draw, unit):
    case = draw(c01._case(unit))
    L = dwtu.flen(case['wave'])
    if draw(st.integers(0, 7)) == 0 and 4 <= L <= (20 if case['dim'] == 1 else 8):
        # constructed: a level given as None whose (periodization) length is odd while a finer level is present -
        # the inverse has to infer that level's size and to drop one sample; far too rare to wait for
        J = draw(st.sampled_from([3, 3, 4]))
        t = draw(st.integers(1, J - 2))
        need = dwtu.even_up(L) * 2 ** (J - 1)

        def one_size():
            n = (2 * draw(st.integers(0, 6)) + 1) * 2 ** t
            while n < need:
                n += 2 ** (t + 1)
            return n
        mode = unit.get('mode') or draw(st.sampled_from(['periodization', 'periodization', 'zero', 'symmetric', 'periodic']))
        mask = [0] * J
        mask[t] = 1
        for j in range(t + 1, J):
            mask[j] = draw(st.integers(0, 1))
        case.update({'J': J, 'size': [one_size() for _ in range(case['dim'])], 'mode': mode,
                     'mode_spelling': 'per' if (mode == 'periodization' and draw(st.booleans())) else mode,
                     'wave_row': None, 'none_mask': mask})
        case['zero_mask'] = [int(draw(st.integers(0, 4)) == 0) for _ in range(J)]
        case['rp'] = draw(core.recipe_strategy())
        return case
    J = case['J']
    kind = draw(st.sampled_from(['none', 'none', 'one', 'rand', 'all']))
    if kind == 'none':
        mask = [0] * J
    elif kind == 'all':
        mask = [1] * J
    elif kind == 'one':
        i = draw(st.integers(0, J - 1))
        mask = [1 if j == i else 0 for j in range(J)]
    else:
        mask = [draw(st.integers(0, 1)) for _ in range(J)]
    case['none_mask'] = mask          # 1 = level passed as None, finest first
    case['zero_mask'] = [int(draw(st.integers(0, 4)) == 0) for _ in range(J)]   # level present but all zeros
    case['rp'] = draw(core.recipe_strategy())
    return case


def strategy(unit):
    return _case(unit)


def ambiguous_none(mask, per_axis):
    """KF-D8-ambiguous: a level t >= 1 with odd input length whose finer
    levels are all None: the inverse cannot know that the level's output has to
    lose one sample (periodization only changes values on the extent)."""
    for ns, _ in per_axis:
        for t in range(1, len(mask)):
            if ns[t] % 2 == 1 and all(mask[:t]):
                return True
    return False


def _inverse(case):
    m = _inverse0(case)
    from pytorch_wavelets import DWT1DInverse, DWTInverse
    c01.later_sibling(case, DWT1DInverse if case['dim'] == 1 else DWTInverse, inverse=True)
    return m


def _inverse0(case):
    from pytorch_wavelets import DWT1DInverse, DWTInverse
    cls = DWT1DInverse if case['dim'] == 1 else DWTInverse
    msp = case.get('mode_spelling', case['mode'])
    with dwtu.default_dtype(dwtu.tdt(case['dtype'])):
        sib = dwtu.sibling(case['wave']) if (case.get('reused') and not case.get('wave_row') and case['mode'] != 'reflect') else None
        if sib is None:
            wa = c01.wave_arg(case, 'rec')
            m = cls(wave=wa, mode=msp)
            c01.scribble(wa)
            return m

        def warm(m):
            k_ = 2 * dwtu.flen(case['wave']) + 2
            yl_ = torch.ones([1, case['C']] + [k_] * case['dim'], requires_grad=True)
            yh_ = torch.ones([1, case['C']] + ([k_] if case['dim'] == 1 else [3, k_, k_]), requires_grad=True)
            m((yl_, [yh_])).sum().backward()
        return dwtu.reused_module(lambda: cls(wave=c01.wave_arg(case, 'rec'), mode=msp),
                                  lambda: cls(wave=sib, mode=msp), warm)


def run_case(case):
    with core.grad_ctx(case.get('ctx')):
        r = _run_case(case)
    return r.label('ctx_' + case['ctx']) if case.get('ctx', 'default') != 'default' else r


def _run_case(case):
    r = Result()
    dim, w, mode, J = case['dim'], case['wave'], case['mode'], case['J']
    size = list(case['size'])
    mask = list(case['none_mask'])
    L = dwtu.flen(w)
    f32 = case['dtype'] == 'f32'
    tdt = dwtu.tdt(case['dtype'])
    Ls = c01.axis_lens(case)
    per_axis = [dwtu.level_lengths(n, L_, mode, J) for n, L_ in zip(size, Ls)]
    in_d1s = any(dwtu.d1_synthesis(ks, L_, mode) for (_, ks), L_ in zip(per_axis, Ls))
    L = max(Ls)
    amb = mode == 'periodization' and ambiguous_none(mask, per_axis)
    r.label('dim%d' % dim, mode, 'f32' if f32 else 'f64',
            'odd' if any(n % 2 for n in size) else None,
            'J>=2' if J >= 2 else None, 'L>=20' if L >= 20 else None,
            'some_None' if any(mask) else None,
            'separate_row_col_wavelets' if case.get('wave_row') else None,
            'all_None' if all(mask) else None,
            'None_with_finer_present' if any(
                mask[t] and not all(mask[:t]) for t in range(1, J)) else None,
            'None_at_odd_level_with_finer_present' if any(
                mask[t] and not all(mask[:t]) and ns[t] % 2 for ns, _ in per_axis for t in range(1, J)) else None,
            'in_D1s_predicate' if in_d1s else None,
            'ambiguous_None(periodization)' if amb else None)
    r.nontrivial = J >= 2 or any(n % 2 for n in size) or any(mask)
    inv = _inverse(case)
    lo_shape, hi_shapes = dwtu.pyr_shapes_axes(size, Ls, mode, J)
    total = dwtu.pyr_total(lo_shape, hi_shapes)

    def mismatch(what, msg):
        if in_d1s and core.kf_open('KF-D1-synthesis', ID):
            r.known('KF-D1-synthesis', msg)
        elif amb and core.kf_open('KF-D8-ambiguous', ID):
            r.known('KF-D8-ambiguous', msg)
        else:
            r.fail('%s:%s:dim%d' % (what, mode, dim), msg)

    rw = c01.ref_wavelet(case)
    r.label('rescaled_filter_bank' if case.get('wave_form') in ('tuple', 'object') and case.get('fb_scale', [1.0, 1.0]) != [1.0, 1.0]
            else None)

    def ref(yl, yh):
        if dim == 1:
            return dwtu.ref_waverec(yl, yh, rw, mode)
        return dwtu.ref_waverec2(yl, yh, rw, mode)

    def call(yl, yh, use_mask):
        tl = torch.tensor(yl[:, None] if yl.ndim == dim + 1 else yl, dtype=tdt)
        th = []
        for j, h in enumerate(yh):
            if use_mask and mask[j]:
                th.append(None)
            else:
                th.append(torch.tensor(h[:, None] if h.ndim == dim + 1 + (dim == 2) else h,
                                       dtype=tdt))
        snap = list(th)
        copies = [tl.clone()] + [None if t is None else t.clone() for t in th]
        ok, out = lib(inv, (tl, th))
        if ok and (len(th) != len(snap) or any(a is not b for a, b in zip(th, snap))):
            r.fail('mutated_list', 'the coefficient list passed in was modified')
        if ok and any(c_ is not None and not torch.equal(t_, c_) for t_, c_ in zip([tl] + snap, copies)):
            r.fail('mutated_argument', 'a coefficient tensor passed in was modified by the inverse')
        return ok, out

    # ---- 1. synthesis operator on basis pyramids (no None) vs PyWavelets
    M, full = dwtu.basis_rows(total, case['k'], cap=dwtu.op_cap(dim, L))
    r.label('full_operator' if full else 'operator_column_subset')
    yl, yh = dwtu.split_flat(M, lo_shape, hi_shapes)
    S_ref = ref(yl, yh)
    g = core.gain(S_ref.reshape(S_ref.shape[0], -1).T) if full else \
        max(1.0, float(np.abs(S_ref).sum(axis=0).max()))
    ok, out = call(yl, yh, False)
    if not ok:
        return r.fail(out.bucket, 'inverse raised on a forward-compatible pyramid: %s' % out)
    if tuple(out.shape) != (S_ref.shape[0], 1) + S_ref.shape[1:]:
        mismatch('shape', 'output shape %s, PyWavelets %s' % (tuple(out.shape), S_ref.shape))
    else:
        tol = (64 * core.EPS32 if f32 else core.TOL64) * max(1.0, g)
        okc, err = core.close(dwtu.to_np(out)[:, 0], S_ref, tol)
        r.metric('operator_abs_err_' + case['dtype'], err)
        if not okc:
            mismatch('operator', 'synthesis operator differs from PyWavelets: ' +
                     core.first_mismatch(dwtu.to_np(out)[:, 0], S_ref, tol))

    # ---- 2. dense pyramid, N,C > 1, with the None mask
    N, C = case['N'], case['C']
    dyl = core.make(case['rx'], (N, C) + tuple(lo_shape))
    dyh = [core.make({**case['rp'], 'seed': case['rp']['seed'] + j}, (N, C) + tuple(s))
           for j, s in enumerate(hi_shapes)]
    if f32:
        dyl = dyl.astype(np.float32).astype(np.float64)
        dyh = [h.astype(np.float32).astype(np.float64) for h in dyh]
    zmask = case.get('zero_mask', [0] * J)
    dyh = [np.zeros_like(h) if zmask[j] else h for j, h in enumerate(dyh)]
    r.label('explicit_zero_level' if any(z and not m_ for z, m_ in zip(zmask, mask)) else None,
            'reused_module' if case.get('reused') and not case.get('wave_row') and dwtu.sibling(w) else None,
            'sibling_constructed_later' if case.get('later_sibling') else None)
    zyh = [np.zeros_like(h) if mask[j] else h for j, h in enumerate(dyh)]
    want = ref(dyl, zyh)
    cmax = max([core.maxabs(dyl)] + [core.maxabs(h) for h in zyh])
    # with a column subset g can underestimate the operator norm: the scale is never below the largest reference value
    scale_d = max(g * cmax, core.maxabs(want), 1e-300)
    tol = (64 * core.EPS32 if f32 else core.TOL64) * scale_d
    ok, out = call(dyl, dyh, True)
    if not ok:
        if any(mask):
            mismatch('raise_none:' + out.bucket, 'inverse raised with None levels %s: %s' % (mask, out))
        else:
            r.fail(out.bucket, 'inverse raised on dense pyramid: %s' % out)
        return r
    if out.dtype != tdt:
        r.fail('dtype', 'output dtype %s for %s coefficients (None mask %s)' % (out.dtype, tdt, mask))
    got = dwtu.to_np(out)
    if any(mask):
        # None == zeros on the signal's extent
        if any(g_ < n for g_, n in zip(got.shape[-dim:], size)):
            mismatch('none_short', 'output %s shorter than the signal extent %s' %
                     (got.shape[-dim:], size))
        else:
            okc, err = core.close(dwtu.crop(got, size), dwtu.crop(want, size), tol)
            if not okc:
                mismatch('none_values', 'None levels %s do not reconstruct like zeros on the extent: %s'
                         % (mask, core.first_mismatch(dwtu.crop(got, size), dwtu.crop(want, size), tol)))
    else:
        okc, err = core.close(got, want, tol)
        r.metric('dense_rel_err', err / scale_d)
        if not okc:
            mismatch('dense', 'dense pyramid differs from PyWavelets: ' +
                     core.first_mismatch(got, want, tol))
    return r


LEVEL_TEXT = ('Generated-input search: the synthesis operator of DWT1DInverse/DWTInverse is extracted '
              'from basis pyramids of forward-compatible shapes (not forward outputs) and compared '
              'entrywise with pywt.waverec/waverec2; dense pyramids with generated None masks are '
              'compared with explicit zeros on the signal extent, dtype included. Thorough tier visits '
              'all 106 x 5 x 2 strata.')
LEVEL_TEXT += (' Also generated: constructed None-at-odd-level cases (with a generator floor), filter forms and module histories of C01, autograd contexts.')
LEVEL_TEXT += (' Round 10: sibling inverse constructed and used between construction and use; custom same-name pywt.Wavelet objects.')
LEVEL_NOTE = ('Sampled configurations, bounded sizes; trusts PyWavelets; open findings KF-D1-synthesis '
              '(short periodization) and KF-D8-ambiguous (None level whose size the API cannot know, '
              'periodization) are classified by predicate.')
TECHNIQUE = 'property-based testing (Hypothesis), differential oracle PyWavelets on extracted synthesis operators'
