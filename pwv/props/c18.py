"""C18 - shipped DTCWT filter tables satisfy the identities the code relies on."""
import os

import numpy as np
import torch
from hypothesis import strategies as st

from pwv import core, dwtu
from pwv.core import Result, lib

ID = 'C18'
LEVEL1 = ['antonini', 'legall', 'near_sym_a', 'near_sym_b', 'near_sym_b_bp']
QSHIFT = ['qshift_06', 'qshift_a', 'qshift_b', 'qshift_c', 'qshift_d', 'qshift_b_bp', 'qshift_32']
EXTRA = ['farras', 'near_sym_a2']          # shipped, but not level-1/q-shift tables the loaders document
EXHAUSTIVE = True
RULE = ('Exhaustive part (replayed first in every run): each of the 5 level-1 and 7 q-shift tables the loaders document is '
        'loaded through biort()/qshift() and checked array-for-array against the reference dtcwt package and the .npz on '
        'disk, and against the identities the transforms and their hand-written gradients assume (symmetry, biorthogonal PR, '
        'orthonormality, tree b = reverse(tree a), synthesis = reverse(analysis), band-pass variants included); every loader that accepts a name must hand out the arrays of the shipped file in its documented order; the two extra '
        'files (8-array level-1 tables of the legacy classes, loaded through level1(name)) are checked for load-equality and against the file. Generated part: histories (lists of up to 30 '
        'operations: load, load-again, a request through a loader that does not fit the table, construct a DTCWT / scattering / legacy module, run it forward, run forward+backward, switch the process default dtype (float64 / float32), drop the '
        'cache) with the invariant after every step that every table still equals the file on disk. Non-trivial history = at '
        'least one module call between two loads of the same table. Distinct = operation sequence.')
ASSUMPTIONS = ['reference tables: dtcwt 0.14 package data', 'q-shift tables are stored to ~9 digits: orthonormality tolerance 1e-7',
               'level-1 PR residual and symmetry tolerance 1e-12 (antonini is symmetric to 4e-15)']
STRATA = {'quick': 'all 14 shipped tables x all identities (exhaustive)', 'thorough': 'all 14 shipped tables x all identities (exhaustive)'}
LABEL_FLOORS = {}
MODS = ['dtcwt_fwd', 'dtcwt_inv', 'scat1', 'scat2', 'scat2_bp', 'scat1_bp', 'legacy_fwd2', 'legacy_inv2', 'legacy_fwd2']


def plan(tier):
    if tier == 'quick':
        return [{'n': 60} for _ in range(16)]
    return [{'n': 1500} for _ in range(16)]


def corpus():
    return [{'kind': 'table', 'name': n} for n in LEVEL1 + QSHIFT + EXTRA]


@st.composite
def _case(draw, unit):
    names = LEVEL1 + QSHIFT + EXTRA
    op = st.one_of(
        st.tuples(st.just('load'), st.sampled_from(names)),
        st.tuples(st.just('load'), st.sampled_from(names)),
        st.tuples(st.just('construct'), st.sampled_from(MODS), st.sampled_from(LEVEL1[:4]), st.sampled_from(QSHIFT[:5])),
        st.tuples(st.just('call'), st.integers(0, 7), st.integers(0, 3)),
        st.tuples(st.just('backward'), st.integers(0, 7), st.integers(0, 3)),
        st.tuples(st.just('drop_cache')),
        # the process switches torch's default dtype (as the library's own *_double tests do): tables do not depend on it
        st.tuples(st.just('default_dtype'), st.sampled_from(['f64', 'f64', 'f32'])),
        st.tuples(st.just('wrong_loader'), st.sampled_from(names), st.integers(0, 2)),
        st.tuples(st.just('wrong_loader'), st.sampled_from(names), st.integers(0, 2)))
    first = draw(st.tuples(st.just('construct'), st.sampled_from(MODS), st.sampled_from(LEVEL1[:4]),
                           st.sampled_from(QSHIFT[:5])))
    used = [first[2], first[3], 'near_sym_b_bp', 'qshift_b_bp']
    op2 = st.one_of(op, st.tuples(st.just('load'), st.sampled_from(used)),
                    st.tuples(st.sampled_from(['call', 'backward']), st.integers(0, 7), st.integers(0, 3)))
    ops = [first] + draw(st.lists(op2, min_size=3, max_size=29))
    return {'kind': 'history', 'ops': [list(o) for o in ops]}


def strategy(unit):
    return _case(unit)


def _disk(name):
    import pytorch_wavelets.dtcwt.coeffs as pc
    path = os.path.join(os.path.dirname(pc.__file__), 'data', name + '.npz')
    with np.load(path) as z:
        return {k: np.array(z[k]) for k in z.keys()}


def _load(name):
    import pytorch_wavelets.dtcwt.coeffs as pc
    if name in LEVEL1:
        keys = ('h0o', 'g0o', 'h1o', 'g1o') + (('h2o', 'g2o') if name == 'near_sym_b_bp' else ())
        return dict(zip(keys, pc.biort(name)))
    if name in QSHIFT:
        keys = ('h0a', 'h0b', 'g0a', 'g0b', 'h1a', 'h1b', 'g1a', 'g1b') + \
            (('h2a', 'h2b', 'g2a', 'g2b') if name == 'qshift_b_bp' else ())
        return dict(zip(keys, pc.qshift(name)))
    # the 8-array level-1 tables of the legacy classes: through the loader those classes use, level1(name)
    return dict(zip(KEYS8, pc.level1(name)))


KEYS8 = ('h0a', 'h0b', 'g0a', 'g0b', 'h1a', 'h1b', 'g1a', 'g1b')


def _every_loader(name, r):
    """Whatever loader accepts the name must hand out the arrays of the shipped file, in its documented order."""
    import pytorch_wavelets.dtcwt.coeffs as pc
    disk = _disk(name)
    bp = ('h2o', 'g2o') if name == 'near_sym_b_bp' else ()
    bq = ('h2a', 'h2b', 'g2a', 'g2b') if name == 'qshift_b_bp' else ()
    for lname, fn, keys in [('level1', lambda: pc.level1(name), KEYS8),
                            ('level1(compact=True)', lambda: pc.level1(name, compact=True), ('h0o', 'g0o', 'h1o', 'g1o') + bp),
                            ('biort', lambda: pc.biort(name), ('h0o', 'g0o', 'h1o', 'g1o') + bp),
                            ('qshift', lambda: pc.qshift(name), KEYS8 + bq)]:
        ok, t = lib(fn)
        if not ok:
            continue                # this loader does not accept the table
        r.label('loader_accepts')
        if len(t) != len(keys):
            r.fail('loader_vs_file', '%s(%s) returns %d arrays, documented %d' % (lname, name, len(t), len(keys)))
            continue
        for k, v in zip(keys, t):
            if k not in disk or not np.array_equal(np.asarray(v), disk[k]):
                r.fail('loader_vs_file', '%s(%s)[%s] differs from the shipped file' % (lname, name, k))
                break


def _same_as_disk(name, r, when):
    got, disk = _load(name), _disk(name)
    for k, v in got.items():
        if k not in disk or not np.array_equal(np.asarray(v), disk[k]) or np.asarray(v).dtype != disk[k].dtype:
            r.fail('table_changed', 'table %s[%s] differs from the file on disk %s' % (name, k, when))
            return False
    return True


def _sym(h):
    h = np.ravel(h)
    return np.array_equal(h, h[::-1]) or np.allclose(h, h[::-1], rtol=0, atol=1e-12)


def _table(case, r):
    import dtcwt.coeffs as dc
    import pytorch_wavelets.dtcwt.coeffs as pc
    name = case['name']
    r.nontrivial = True
    r.label('table', name)
    _every_loader(name, r)
    if name in EXTRA:
        a, b = _load(name), _load(name)
        if not all(np.array_equal(a[k], b[k]) for k in a):
            r.fail('reload_differs', 'two loads of %s differ' % name)
        _same_as_disk(name, r, 'after two loads')
        return r
    t = _load(name)
    ref = dc.biort(name) if name in LEVEL1 else dc.qshift(name)
    if len(ref) != len(t):
        return r.fail('vs_reference', '%s: %d arrays, reference has %d' % (name, len(t), len(ref)))
    for (k, v), rv in zip(t.items(), ref):
        if np.asarray(v).shape != np.asarray(rv).shape or not np.array_equal(np.asarray(v), np.asarray(rv)):
            r.fail('vs_reference', '%s[%s] differs from the reference dtcwt package' % (name, k))
    _same_as_disk(name, r, 'after loading')
    t2 = _load(name)
    if not all(np.array_equal(t[k], t2[k]) for k in t):
        r.fail('reload_differs', 'two loads of %s differ' % name)
    f = {k: np.ravel(v).astype(np.float64) for k, v in t.items()}
    if name in LEVEL1:
        for k, v in f.items():
            if not _sym(v):
                r.fail('level1_not_symmetric', '%s[%s] is not symmetric' % (name, k))
        p, q = np.convolve(f['h0o'], f['g0o']), np.convolve(f['h1o'], f['g1o'])
        n = max(len(p), len(q))
        P, Q = np.zeros(n), np.zeros(n)
        P[(n - len(p)) // 2:(n - len(p)) // 2 + len(p)] = p
        Q[(n - len(q)) // 2:(n - len(q)) // 2 + len(q)] = q
        s = P + Q
        delta = np.zeros(n)
        delta[n // 2] = s[n // 2]
        resid = float(np.abs(s - delta).max())
        r.metric('level1_pr_residual', resid)
        if resid > 1e-12 or abs(s[n // 2]) < 0.5:
            r.fail('level1_pr', '%s: h0*g0 + h1*g1 is not a centred delta (residual %.3g, centre %.3g)' % (name, resid, s[n // 2]))
    else:
        pairs = [('h0', 'g0'), ('h1', 'g1')] + ([('h2', 'g2')] if 'h2a' in f else [])
        for h, g in pairs:
            ha, hb, ga, gb = f[h + 'a'], f[h + 'b'], f[g + 'a'], f[g + 'b']
            if not np.array_equal(hb, ha[::-1]):
                r.fail('qshift_b_not_reverse_a', '%s: %sb != reverse(%sa)' % (name, h, h))
            if not np.array_equal(gb, ga[::-1]):
                r.fail('qshift_b_not_reverse_a', '%s: %sb != reverse(%sa)' % (name, g, g))
            if not np.array_equal(ga, ha[::-1]) or not np.array_equal(gb, hb[::-1]):
                r.fail('qshift_g_not_reverse_h', '%s: synthesis %s is not the time-reverse of analysis %s' % (name, g, h))
        h0a, h1a = f['h0a'], f['h1a']
        m = len(h0a)
        res = 0.0
        for k in range(0, m // 2):
            s = 2 * k
            d = 1.0 if k == 0 else 0.0
            res = max(res, abs(float(h0a[:m - s] @ h0a[s:]) - d), abs(float(h1a[:m - s] @ h1a[s:]) - d),
                      abs(float(h0a[:m - s] @ h1a[s:])), abs(float(h1a[:m - s] @ h0a[s:])))
        r.metric('qshift_orthonormality_residual', res)
        if res > 1e-7:
            r.fail('qshift_not_orthonormal', '%s: orthonormality residual %.3g' % (name, res))
    return r


def _make(kind, b, q):
    from pytorch_wavelets import DTCWTForward, DTCWTInverse, ScatLayer, ScatLayerj2
    if kind == 'dtcwt_fwd':
        return DTCWTForward(biort=b, qshift=q, J=2), [b, q]
    if kind == 'dtcwt_inv':
        return DTCWTInverse(biort=b, qshift=q), [b, q]
    if kind == 'scat1':
        return ScatLayer(biort=b), [b]
    if kind == 'scat1_bp':
        return ScatLayer(biort='near_sym_b_bp'), ['near_sym_b_bp']
    if kind == 'scat2':
        return ScatLayerj2(biort=b, qshift=q), [b, q]
    if kind in ('legacy_fwd2', 'legacy_inv2'):
        # the older DTCWTForward2 / DTCWTInverse2 classes load the 8-array level-1 tables through level1(name)
        from pytorch_wavelets.dtcwt import lowlevel2 as l2
        name = EXTRA[len(b) % 2]
        cls = l2.DTCWTForward2 if kind == 'legacy_fwd2' else l2.DTCWTInverse2
        return (cls(biort=name, qshift=q, J=2) if kind == 'legacy_fwd2' else cls(biort=name, qshift=q)), [name, q]
    return ScatLayerj2(biort='near_sym_b_bp', qshift='qshift_b_bp'), ['near_sym_b_bp', 'qshift_b_bp']


def _history(case, r):
    before = torch.get_default_dtype()
    try:
        return _history0(case, r)
    finally:
        torch.set_default_dtype(before)


def _history0(case, r):
    import pytorch_wavelets.dtcwt.coeffs as pc
    from pytorch_wavelets import DTCWTInverse
    loaded, mods = {}, []
    mdt = {}                        # precision each module was constructed in (its inputs are made in it)
    calls_since = {}
    r.label('history')
    for step, op in enumerate(case['ops']):
        kind = op[0]
        if kind == 'load':
            name = op[1]
            ok, t = lib(_load, name)
            if not ok:
                return r.fail(t.bucket, 'loading %s raised at step %d: %s' % (name, step, t))
            if name in loaded:
                r.label('reload')
                if calls_since.get(name):
                    r.nontrivial = True
                if not all(np.array_equal(t[k], loaded[name][k]) for k in t):
                    return r.fail('reload_differs', 'load of %s at step %d differs from its first load' % (name, step))
            else:
                loaded[name] = {k: np.array(v, copy=True) for k, v in t.items()}
            calls_since[name] = 0
        elif kind == 'construct':
            ok, mk = lib(_make, op[1], op[2], op[3])
            if not ok:
                return r.fail(mk.bucket, 'constructing %s raised: %s' % (op[1:], mk))
            mods.append(mk[0])
            mdt[id(mk[0])] = torch.get_default_dtype()
            for n in mk[1]:
                loaded.setdefault(n, {k: np.array(v, copy=True) for k, v in _load(n).items()})
        elif kind in ('call', 'backward') and mods:
            m = mods[op[1] % len(mods)]
            if type(m).__name__ == 'DTCWTInverse2':
                continue            # constructed only (its call signature needs a legacy pyramid)
            dt_ = mdt.get(id(m), torch.float32)
            if isinstance(m, DTCWTInverse):
                x = (torch.randn(1, 1, 4, 4, generator=torch.Generator().manual_seed(op[2]), dtype=dt_),
                     [torch.randn(1, 1, 6, 4, 4, 2, generator=torch.Generator().manual_seed(op[2]), dtype=dt_),
                      torch.randn(1, 1, 6, 2, 2, 2, generator=torch.Generator().manual_seed(op[2]), dtype=dt_)])
                x[0].requires_grad_(kind == 'backward')
            else:
                x = torch.randn(1, 3, 8 + 8 * (op[2] % 2), 16, generator=torch.Generator().manual_seed(op[2]), dtype=dt_)
                x.requires_grad_(kind == 'backward' and type(m).__name__ != 'DTCWTForward2')
            ok, y = lib(m, x)
            if not ok:
                return r.fail(y.bucket, 'module call raised in a history: %s' % y)
            if kind == 'backward':
                outs = []

                def flat(o):
                    if isinstance(o, torch.Tensor):
                        if o.requires_grad:
                            outs.append(o.sum())
                    elif o is not None:
                        for a in o:
                            flat(a)
                flat(y)
                if outs:
                    ok, e = lib(lambda: sum(outs).backward())
                    if not ok:
                        return r.fail(e.bucket, 'backward raised in a history: %s' % e)
            for n in calls_since:
                calls_since[n] += 1
            r.label('module_call')
        elif kind == 'wrong_loader':
            # a request through a loader that does not fit the table (rejected on the pinned tree): whatever it
            # does, later proper loads must be unaffected
            fn = [lambda n: pc.level1(n), lambda n: pc.biort(n), lambda n: pc.qshift(n)][op[2]]
            lib(fn, op[1])
            r.label('wrong_loader_request')
            loaded.setdefault(op[1], None)
            if loaded[op[1]] is None:
                ok, t = lib(_load, op[1])
                if not ok:
                    return r.fail('load_after_rejected_request', 'after a rejected request for %s through another loader the '
                                  'proper load raises: %s' % (op[1], t))
                loaded[op[1]] = {k: np.array(v, copy=True) for k, v in t.items()}
        elif kind == 'default_dtype':
            torch.set_default_dtype(torch.float64 if op[1] == 'f64' else torch.float32)
            r.label('default_dtype_switched_to_' + op[1])
        elif kind == 'drop_cache':
            if isinstance(getattr(pc, 'COEFF_CACHE', None), dict):
                pc.COEFF_CACHE.clear()
                r.label('cache_dropped')
        # invariant after every step
        for name in loaded:
            if not _same_as_disk(name, r, 'after step %d (%s)' % (step, op)):
                return r
            now = _load(name)
            if not all(np.array_equal(now[k], loaded[name][k]) for k in now):
                return r.fail('table_changed', 'table %s changed after step %d (%s)' % (name, step, op))
    return r


def run_case(case):
    r = Result()
    r.key = core.case_key(case)
    with dwtu.default_dtype(torch.float32):
        if case['kind'] == 'table':
            return _table(case, r)
        return _history(case, r)


LEVEL_TEXT = ('Finite part enumerated exhaustively on every run: 14 shipped tables x (equality with the reference package and '
              'with the file on disk, reload equality, and every structural identity the transforms and backward passes rely on). '
              'Generated part: operation histories interleaving loads, cache drops, module constructions, forward and backward '
              'calls, with the invariant that every table still equals its file after each step.')
LEVEL_TEXT += (' Every loader that accepts a name must hand out the arrays of the shipped file; histories include requests through a loader that does not fit the table and the legacy DTCWTForward2/Inverse2 classes.')
LEVEL_TEXT += (' Round 10: histories switch the process default dtype (float64 / float32) between loads, constructions and calls.')
LEVEL_NOTE = ('The table x identity grid is complete; histories are sampled (<= 30 steps). farras / near_sym_a2 are outside '
              'the identities (they are not level-1/q-shift tables of the documented loaders) and only checked for load '
              'equality.')
TECHNIQUE = 'exhaustive enumeration of the finite table x identity grid + property-based operation histories (Hypothesis)'
