"""C19 - non-separable one-level filter bank equals the separable one."""
import numpy as np
import pywt
import torch
from hypothesis import strategies as st

from pwv import core, dwtu
from pwv.core import Result, lib

ID = 'C19'
MODES = ['zero', 'symmetric', 'reflect', 'periodization']
RULE = ('Hypothesis draws direction (analysis/synthesis), filters as a 2-tuple of one wavelet or a 4-tuple '
        '(column wavelet, row wavelet) of two different wavelets, or (one case in six) a hand-made bank with integer-typed lowpass taps given as integer ndarrays / lists (2-8 taps, odd counts included outside periodization), mode in zero/symmetric/reflect/'
        'periodization, independent H,W >= 2 (odd, shorter than the filter, non-square), N, C, dtype, '
        'content recipes. Oracle: differential afb2d_nonsep vs afb2d and sfb2d_nonsep vs sfb2d on the same '
        'arguments (basis inputs for the full operator when small, dense inputs always); exactly one of the '
        'two raising is a violation. Non-trivial = non-square or 4-tuple or odd. Distinct = configuration '
        'without seeds.')
ASSUMPTIONS = ['the separable implementation is the reference for the non-separable one (C01/C10 tie the '
               'separable one to PyWavelets)', 'tolerance 1e-11*max(1,gain*max|x|) float64; 64*eps32 float32']
STRATA = {'thorough': 'every (wavelet, mode, direction) with the same wavelet on both axes: 106 x 4 x 2',
          'quick': ''}
LABEL_FLOORS = {'odd': 0.3, '4tuple': 0.3}


def plan(tier):
    if tier == 'quick':
        return [{'n': 250} for _ in range(8)]
    units = []
    for w in dwtu.WAVES:
        for m in MODES:
            for d in ('analysis', 'synthesis'):
                units.append({'n': 12, 'wave': w, 'mode': m, 'direction': d})
    units += [{'n': 4000} for _ in range(16)]
    return units


@st.composite
def _case(draw, unit):
    wc = unit.get('wave') or draw(dwtu.wavelet_strategy())
    four = False if unit.get('wave') else draw(st.booleans())
    wr = draw(dwtu.wavelet_strategy()) if four else wc
    mode = unit.get('mode') or draw(st.sampled_from(MODES))
    Lc, Lr = dwtu.flen(wc), dwtu.flen(wr)
    H = draw(dwtu.size_strategy(Lc, 1, cap=24))
    W = draw(dwtu.size_strategy(Lr, 1, cap=24))
    custom = None
    if not unit.get('wave') and draw(st.integers(0, 5)) == 0:
        # a hand-made filter bank (the functions take any arrays): integer-typed taps (e.g. the unnormalised Haar /
        # binomial lowpass) next to fractional ones, as integer ndarrays or plain lists
        def bank(L):
            lo = [draw(st.integers(-3, 3)) for _ in range(L)]
            if not any(lo):
                lo[0] = 1
            hi = [draw(st.sampled_from([0.5, -0.5, 0.125, 0.375, -0.375, 1.0, -1.0, 0.0, 2.0 ** -0.5, -0.3])) for _ in range(L)]
            return lo, hi
        # odd tap counts too (LeGall 5/3-like banks): no PyWavelets wavelet has one, so this is the only way to reach
        # pad arithmetic that assumes an even count. Not in periodization: its definition (roll by L/2) presumes an
        # even count and the two paths already differ there on the pinned tree (DESIGN.md 6.3c, last round).
        odd_ok = mode != 'periodization'
        Lc = draw(st.sampled_from([2, 4, 3, 5, 7, 6, 8] if odd_ok else [2, 2, 4, 4, 6, 8]))
        Lr = Lc if not four else draw(st.sampled_from([2, 3, 5, 4, 6, 7] if odd_ok else [2, 4, 6]))
        bc = bank(Lc)
        br = bank(Lr) if four else bc
        custom = {'lo_c': bc[0], 'hi_c': bc[1], 'lo_r': br[0], 'hi_r': br[1],
                  'container': draw(st.sampled_from(['int_array', 'int_array', 'list', 'float_array']))}
        H = draw(dwtu.size_strategy(Lc, 1, cap=24))
        W = draw(dwtu.size_strategy(Lr, 1, cap=24))
    return {'direction': unit.get('direction') or draw(st.sampled_from(['analysis', 'synthesis'])), 'custom': custom,
            'wcol': wc, 'wrow': wr, 'four': four or draw(st.booleans()), 'mode': mode,
            'mode_spelling': 'per' if (mode == 'periodization' and draw(st.integers(0, 2)) == 0) else mode,
            'size': [H, W], 'N': draw(st.sampled_from([1, 2, 3])), 'C': draw(st.sampled_from([1, 2, 3])),
            'dtype': draw(st.sampled_from(['f64', 'f64', 'f64', 'f32'])),
            'rx': draw(core.recipe_strategy()), 'k': draw(st.integers(0, 10**6))}


def strategy(unit):
    return _case(unit)


def run_case(case):
    from pytorch_wavelets.dwt import lowlevel as ll
    r = Result()
    wc, wr, mode = pywt.Wavelet(case['wcol']), pywt.Wavelet(case['wrow']), case['mode']
    H, W = case['size']
    N, C = case['N'], case['C']
    ana = case['direction'] == 'analysis'
    f32 = case['dtype'] == 'f32'
    tdt = dwtu.tdt(case['dtype'])
    Lc, Lr = wc.dec_len, wr.dec_len
    cu = case.get('custom')
    if cu:
        Lc, Lr = len(cu['lo_c']), len(cu['lo_r'])
        r.label('custom_filter_bank', 'filters_as_' + cu['container'],
                'odd_tap_count' if (Lc % 2 or Lr % 2) else None)
    r.label(case['direction'], mode, case['dtype'], '4tuple' if case['four'] else '2tuple',
            'odd' if (H % 2 or W % 2) else None, 'nonsquare' if H != W else None,
            'different_wavelets' if case['wcol'] != case['wrow'] else None,
            'short<L' if (H < Lc or W < Lr) else None)
    r.nontrivial = H != W or case['four'] or bool(H % 2 or W % 2)
    if ana:
        f4 = (np.array(wc.dec_lo), np.array(wc.dec_hi), np.array(wr.dec_lo), np.array(wr.dec_hi))
    else:
        f4 = (np.array(wc.rec_lo), np.array(wc.rec_hi), np.array(wr.rec_lo), np.array(wr.rec_hi))
    filts = f4 if (case['four'] or case['wcol'] != case['wrow']) else f4[:2]
    if cu:
        def box(lo, hi):
            if cu['container'] == 'list':
                return [list(lo), list(hi)]
            if cu['container'] == 'int_array':
                return [np.array(lo, dtype=np.int64), np.array(hi, dtype=np.float64)]
            return [np.array(lo, dtype=np.float64), np.array(hi, dtype=np.float64)]
        different = (cu['lo_c'], cu['hi_c']) != (cu['lo_r'], cu['hi_r'])
        filts = tuple(box(cu['lo_c'], cu['hi_c']) + (box(cu['lo_r'], cu['hi_r']) if (case['four'] or different) else []))

    msp = case.get('mode_spelling', mode)        # 'per' is the accepted short spelling of 'periodization'
    r.label('mode_spelled_per' if msp != mode else None)

    def both(x):
        with dwtu.default_dtype(tdt):
            if ana:
                t = torch.tensor(x, dtype=tdt)
                a = lib(ll.afb2d, t, filts, msp)
                b = lib(ll.afb2d_nonsep, t.clone(), filts, msp)
            else:
                t = torch.tensor(x, dtype=tdt)       # (n, C, 4, h, w)
                a = lib(ll.sfb2d, t[:, :, 0], t[:, :, 1], t[:, :, 2], t[:, :, 3], filts, msp)
                b = lib(ll.sfb2d_nonsep, t.clone(), filts, msp)
        return a, b

    if ana:
        shape = [H, W]
    else:
        shape = [4, pywt.dwt_coeff_len(H, Lc, mode), pywt.dwt_coeff_len(W, Lr, mode)]
    ntot = int(np.prod(shape))
    # the non-separable path convolves with Lc x Lr kernels (im2col): bound the work per case
    oh, ow = (H + Lc) // 2 + 1, (W + Lr) // 2 + 1
    budget = int(2e7 // (Lc * Lr * oh * ow * (1 if ana else 4)))
    M, full = dwtu.basis_rows(ntot, case['k'], cap=min(400, max(budget, 4)), sub=max(4, min(48, budget)))
    if budget < N * C:
        N = C = 1
    r.label('full_operator' if full else 'operator_column_subset')
    dense = core.make(case['rx'], [N, C] + shape)
    if f32:
        dense = dense.astype(np.float32).astype(np.float64)
    for name, x in (('operator', M.reshape([M.shape[0], 1] + shape)), ('dense', dense)):
        (oka, a), (okb, b) = both(x)
        if not oka and not okb:
            r.label('both_reject')
            r.allowed_rejection = True
            continue
        if oka != okb:
            if (not ana and not okb and mode == 'periodization' and
                    (2 * shape[1] < Lc - 2 or 2 * shape[2] < Lr - 2) and
                    core.kf_open('KF-D1-synthesis', ID)):
                # same root cause as the short-periodization finding: the single wrap-around fold
                # overlaps itself; the non-separable path raises where the separable one returns
                # (wrong) numbers
                r.known('KF-D1-synthesis', 'non-separable synthesis raises on a short periodization '
                        'level: %s' % b)
                continue
            who = ('separable', 'non-separable', a) if not oka else ('non-separable', 'separable', b)
            r.fail('one_sided_reject:%s:%s' % (mode, case['direction']),
                   '%s raised but %s returned (%s)' % who)
            continue
        a, b = dwtu.to_np(a), dwtu.to_np(b)
        if a.size != b.size or a.size == 0 or b.size == 0:
            r.fail('shape:%s:%s' % (mode, case['direction']), 'separable %s vs non-separable %s' % (a.shape, b.shape))
            continue
        if ana:
            a = a.reshape(a.shape[0], -1, 4, a.shape[-2], a.shape[-1])
            b = b.reshape(b.shape[0], -1, 4, b.shape[-2], b.shape[-1])
        if a.shape != b.shape:
            r.fail('shape:%s:%s' % (mode, case['direction']), 'separable %s vs non-separable %s' %
                   (a.shape, b.shape))
            continue
        g = max(1.0, float(np.abs(a).reshape(a.shape[0], -1).sum(0).max())) if name == 'operator' else g
        scale = 1.0 if name == 'operator' else core.maxabs(x)
        tol = (64 * core.EPS32 if f32 else core.TOL64) * max(g * scale, 1e-300)
        okc, err = core.close(b, a, tol)
        r.metric('%s_rel_err_%s' % (name, case['dtype']), err / max(g * scale, 1e-300))
        if not okc:
            r.fail('values:%s:%s' % (mode, case['direction']),
                   'non-separable differs from separable (%s): %s' % (name, core.first_mismatch(b, a, tol)))
    return r


LEVEL_TEXT = ('Generated-input search: the one-level non-separable analysis/synthesis banks are compared '
              'with the separable ones as whole operators (basis inputs) and on dense inputs, over wavelets, '
              '2-/4-tuples with different row/column wavelets, 4 modes, odd / short / non-square sizes; '
              'acceptance must agree too. Thorough tier visits every wavelet x mode x direction.')
LEVEL_TEXT += (' Also generated: mode spelled per, hand-made banks with integer-typed taps as integer arrays / lists, with odd tap counts (3, 5, 7) outside periodization.')
LEVEL_NOTE = 'Differential against the separable path only (its agreement with PyWavelets is C01/C10); sizes <= 24x24.'
TECHNIQUE = 'property-based testing (Hypothesis), differential oracle separable vs non-separable'
