"""C14 - separate row and column filters act on the axis they are named for."""
import numpy as np
import pywt
import torch
from hypothesis import strategies as st

from pwv import core, dwtu
from pwv.core import Result, lib

ID = 'C14'
RULE = ('Hypothesis draws an ordered pair (column wavelet, row wavelet), mostly different wavelets of '
        'different lengths, the filter form (4-tuple, 2-tuple, name), mode (5), J in 1..3, non-square H x W '
        'incl. odd and shorter than one of the filters, N, C, content recipes; for same-length pairs the filters may also arrive through load_state_dict in a module constructed from one name / 2-tuple and used once. Oracles: pywt.wavedec2 / '
        'waverec2 with one wavelet per axis (operator on basis inputs + dense inputs, a dense pyramid with one level given as None), the functional '
        'afb2d/sfb2d with the same four filters (J=1), and the transposition relation '
        'DWT[(a,b)](x) = swap_lh_hl(DWT[(b,a)](x^T))^T. Non-trivial = column wavelet != row wavelet. '
        'Distinct = configuration without seeds.')
ASSUMPTIONS = ['PyWavelets with a per-axis wavelet tuple is the reference (axis -2 = column filters)',
               'tolerance 1e-11*max(1,gain*max|x|), float64']
STRATA = {'thorough': 'free search only (106 x 105 ordered pairs are sampled, not enumerated)', 'quick': ''}
LABEL_FLOORS = {'different_wavelets': 0.6, 'odd': 0.25}


def plan(tier):
    if tier == 'quick':
        return [{'n': 200} for _ in range(16)]
    return [{'n': 8000} for _ in range(16)]


@st.composite
def _case(draw, unit):
    wc = draw(dwtu.wavelet_strategy(max_len=40))
    form = draw(st.sampled_from(['4tuple'] * 6 + ['2tuple', 'name']))
    if form == '4tuple':
        # constructed to differ from wc (Hypothesis likes to repeat equal draws)
        pool = [w for w in dwtu.WAVES if dwtu.flen(w) <= 40]
        pick = draw(dwtu.wavelet_strategy(max_len=40))
        off = draw(st.integers(0, len(pool) - 2))
        wr = pick if pick != wc else pool[(pool.index(wc) + 1 + off) % len(pool)]
    else:
        wr = wc
    if form == '4tuple' and draw(st.integers(0, 7)) == 0:
        # the time-reversed wavelet on the other axis, in either order: with it the 4-tuple coincides with what
        # pywt.Wavelet(...).filter_bank holds
        if draw(st.booleans()):
            wr = 'rev:' + wc
        else:
            wc, wr = 'rev:' + wc, wc
    born = 'direct'
    if form == '4tuple' and not wc.startswith('rev:') and not wr.startswith('rev:') and draw(st.integers(0, 3)) == 0 and dwtu.sibling(wc):
        # a same-length pair, so that the filters can also arrive through load_state_dict in a module that was
        # constructed from a single name / 2-tuple (one wavelet for both axes) and used once
        wr = dwtu.sibling(wc)
        born = draw(st.sampled_from(['name', '2tuple', 'direct']))
    mode = draw(st.sampled_from(dwtu.MODES5))
    J = draw(st.sampled_from([1, 1, 2, 3]))
    Lc, Lr = _flen(wc), _flen(wr)
    H = draw(dwtu.size_strategy(Lc, J, cap=20))
    W = draw(dwtu.size_strategy(Lr, J, cap=20))
    if mode == 'periodization' and draw(st.integers(0, 99)) >= 15:
        # stay outside the short-periodization finding most of the time
        if max(Lc, Lr) * 2 ** (J - 1) > 40:
            J = 1
        H = max(H, dwtu.even_up(Lc) * 2 ** (J - 1))
        W = max(W, dwtu.even_up(Lr) * 2 ** (J - 1))
    return {'wcol': wc, 'wrow': wr, 'form': form, 'born': born, 'mode': mode, 'J': J, 'size': [H, W],
            'N': draw(st.sampled_from([1, 2])), 'C': draw(st.sampled_from([1, 2, 3])),
            'rx': draw(core.recipe_strategy()), 'k': draw(st.integers(0, 10**6))}


def strategy(unit):
    return _case(unit)


def _flen(n):
    return dwtu.flen(n[4:] if n.startswith('rev:') else n)


def _pw(n):
    """'rev:<name>' is the time-reversed wavelet (analysis and synthesis banks exchanged): still a perfect-reconstruction
    wavelet, and together with <name> on the other axis the 4-tuple of filters equals pywt's filter_bank tuple."""
    if n.startswith('rev:'):
        w = pywt.Wavelet(n[4:])
        return pywt.Wavelet('rev_' + n[4:], filter_bank=[w.rec_lo, w.rec_hi, w.dec_lo, w.dec_hi])
    return pywt.Wavelet(n)


def _filters(case, kind):
    wc, wr = _pw(case['wcol']), _pw(case['wrow'])
    if kind == 'dec':
        f4 = (wc.dec_lo, wc.dec_hi, wr.dec_lo, wr.dec_hi)
    else:
        f4 = (wc.rec_lo, wc.rec_hi, wr.rec_lo, wr.rec_hi)
    f4 = tuple(np.array(f) for f in f4)
    if case['form'] == '4tuple':
        return f4
    if case['form'] == '2tuple':
        return f4[:2]
    return case['wcol']


def run_case(case):
    from pytorch_wavelets import DWTForward, DWTInverse
    from pytorch_wavelets.dwt import lowlevel as ll
    r = Result()
    wc, wr, mode, J = case['wcol'], case['wrow'], case['mode'], case['J']
    H, W = case['size']
    Lc, Lr = _flen(wc), _flen(wr)
    axH, axW = dwtu.level_lengths(H, Lc, mode, J), dwtu.level_lengths(W, Lr, mode, J)
    in_d1a = dwtu.d1_analysis(axH[0], Lc, mode) or dwtu.d1_analysis(axW[0], Lr, mode)
    in_d1s = dwtu.d1_synthesis(axH[1], Lc, mode) or dwtu.d1_synthesis(axW[1], Lr, mode)
    may_raise = dwtu.reflect_may_raise(axH[0], Lc, mode) or dwtu.reflect_may_raise(axW[0], Lr, mode)
    r.label(case['form'], mode, 'different_wavelets' if wc != wr else None, 'time_reversed_pair' if 'rev:' in wc + wr else None,
            'different_lengths' if Lc != Lr else None, 'odd' if (H % 2 or W % 2) else None,
            'J>=2' if J >= 2 else None, 'nonsquare' if H != W else None,
            'in_D1_predicate' if (in_d1a or in_d1s) else None)
    r.nontrivial = wc != wr
    refw = (_pw(wc), _pw(wr))

    def mismatch(kind, what, msg):
        if kind == 'a' and in_d1a and core.kf_open('KF-D1-analysis', ID):
            r.known('KF-D1-analysis', msg)
        elif kind == 's' and in_d1s and core.kf_open('KF-D1-synthesis', ID):
            r.known('KF-D1-synthesis', msg)
        else:
            r.fail('%s:%s' % (what, mode), msg)

    with dwtu.default_dtype(torch.float64):
        fd, fr = _filters(case, 'dec'), _filters(case, 'rec')
        fwd = DWTForward(J=J, wave=fd, mode=mode)
        inv = DWTInverse(wave=fr, mode=mode)
        for arrs in (fd, fr):
            if isinstance(arrs, tuple):
                for a_ in arrs:
                    a_[...] = 7.0               # the caller reuses its arrays: the modules must own copies
        if case.get('born', 'direct') != 'direct' and mode != 'reflect':
            r.label('filters_loaded_into_single_wavelet_module')
            one = {**case, 'wrow': wc, 'form': case['born']}

            def warm_f(m):
                m(torch.ones(1, 1, 2 * Lc + 2, 2 * Lc + 2))

            def warm_i(m):
                k_ = 2 * Lc + 2
                m((torch.ones(1, 1, k_, k_), [torch.ones(1, 1, 3, k_, k_)]))
            fwd = dwtu.reused_module(lambda: fwd, lambda: DWTForward(J=J, wave=_filters(one, 'dec'), mode=mode), warm_f)
            inv = dwtu.reused_module(lambda: inv, lambda: DWTInverse(wave=_filters(one, 'rec'), mode=mode), warm_i)
        fwd_sw = DWTForward(J=J, wave=(_filters({**case, 'wcol': wr, 'wrow': wc, 'form': '4tuple'}, 'dec')),
                            mode=mode)

    # ---------------- analysis
    M, full = dwtu.basis_rows(H * W, case['k'], cap=dwtu.op_cap(2, max(Lc, Lr)))
    r.label('full_operator' if full else 'operator_column_subset')
    B = M.reshape(-1, H, W)
    x = core.make(case['rx'], [case['N'], case['C'], H, W])
    rejected = False
    for name, inp in (('operator', B[:, None]), ('dense', x)):
        ok, out = lib(fwd, torch.tensor(inp))
        if not ok:
            if may_raise:
                r.allowed_rejection = True
                rejected = True
                break
            return r.fail(out.bucket, 'forward raised: %s' % out)
        yl, yh = out
        ryl, ryh = dwtu.ref_wavedec2(inp[:, 0] if name == 'operator' else inp, refw, mode, J)
        got = dwtu.flat1(dwtu.to_np(yl), [dwtu.to_np(h) for h in yh])
        shp_ok = all(tuple(t.shape[-2:]) == e.shape[-2:] for t, e in zip([yl] + list(yh), [ryl] + ryh))
        if not shp_ok:
            mismatch('a', 'analysis_shape', 'band shapes %s vs PyWavelets %s' % (
                [tuple(t.shape) for t in [yl] + list(yh)], [e.shape for e in [ryl] + ryh]))
            continue
        want = dwtu.flat1(ryl, ryh)
        g = max(1.0, float(np.abs(want).sum(0).max())) if name == 'operator' else g
        tol = core.TOL64 * max(g * (1.0 if name == 'operator' else core.maxabs(inp)), 1e-300)
        okc, err = core.close(got, want, tol)
        if not okc:
            mismatch('a', 'analysis_' + name, 'DWTForward with (col=%s,row=%s) differs from '
                     'pywt.wavedec2 per-axis: %s' % (wc, wr, core.first_mismatch(got, want, tol)))
        if name == 'dense':
            # the same values behind another memory layout (a transposed view) must give the same coefficients
            tv = torch.tensor(np.ascontiguousarray(np.swapaxes(inp, -1, -2))).transpose(-1, -2)
            ok, ov = lib(fwd, tv)
            if not ok:
                r.fail(ov.bucket, 'forward raised on a transposed-view input: %s' % ov)
            else:
                okv = all(tuple(a_.shape) == tuple(b_.shape) for a_, b_ in zip([ov[0]] + list(ov[1]), [yl] + list(yh)))
                gotv = dwtu.flat1(dwtu.to_np(ov[0]), [dwtu.to_np(h) for h in ov[1]]) if okv else None
                if not okv or not core.close(gotv, got, 1e-12 * max(g * core.maxabs(inp), 1e-300))[0]:
                    r.fail('strided_input:%s' % mode, 'a transposed-view input gives other coefficients than its contiguous copy '
                           '(col=%s,row=%s)' % (wc, wr))
            # transposition relation with the swapped 4-tuple
            ok, o2 = lib(fwd_sw, torch.tensor(np.ascontiguousarray(np.swapaxes(inp, -1, -2))))
            if not ok:
                r.fail(o2.bucket, 'swapped-filter forward raised: %s' % o2)
            else:
                t_yl = dwtu.to_np(o2[0]).swapaxes(-1, -2)
                t_yh = [dwtu.to_np(h).swapaxes(-1, -2)[:, :, [1, 0, 2]] for h in o2[1]]
                got2 = dwtu.flat1(t_yl, t_yh)
                okc, err = core.close(got2, got, tol)
                if not okc:
                    r.fail('transpose_relation:%s' % mode, 'DWT[(col,row)](x) != transpose of '
                           'DWT[(row,col)](x^T) with LH/HL swapped: ' + core.first_mismatch(got2, got, tol))
            if J == 1:
                f4 = _filters({**case, 'form': '4tuple'}, 'dec')
                with dwtu.default_dtype(torch.float64):
                    ok, o3 = lib(ll.afb2d, torch.tensor(inp), f4, mode)
                if ok:
                    o3 = dwtu.to_np(o3)
                    o3 = o3.reshape(o3.shape[0], -1, 4, o3.shape[-2], o3.shape[-1])
                    got3 = dwtu.flat1(o3[:, :, 0], [o3[:, :, 1:]])
                    okc, err = core.close(got3, got, tol)
                    if not okc:
                        r.fail('functional_afb2d:%s' % mode, 'module differs from lowlevel.afb2d with the '
                               'same four filters: ' + core.first_mismatch(got3, got, tol))
                else:
                    r.fail(o3.bucket, 'lowlevel.afb2d raised: %s' % o3)
    if rejected:
        r.label('rejected_reflect_short')
    # ---------------- synthesis on forward-compatible pyramids
    lo_shape = (axH[1][-1], axW[1][-1])
    hi_shapes = [(3, a, b) for a, b in zip(axH[1], axW[1])]
    total = dwtu.pyr_total(lo_shape, hi_shapes)
    M, full = dwtu.basis_rows(total, case['k'] + 1, cap=dwtu.op_cap(2, max(Lc, Lr)))
    yl, yh = dwtu.split_flat(M, lo_shape, hi_shapes)
    want = dwtu.ref_waverec2(yl, yh, refw, mode)
    ok, out = lib(inv, (torch.tensor(yl[:, None]), [torch.tensor(h[:, None]) for h in yh]))
    if not ok:
        return r.fail(out.bucket, 'inverse raised: %s' % out)
    got = dwtu.to_np(out)[:, 0]
    g = max(1.0, float(np.abs(want).reshape(want.shape[0], -1).sum(0).max()))
    okc, err = core.close(got, want, core.TOL64 * g)
    if not okc:
        mismatch('s', 'synthesis_operator', 'DWTInverse with (col=%s,row=%s) differs from pywt.waverec2 '
                 'per-axis: %s' % (wc, wr, core.first_mismatch(got, want, 1e-11 * g)))
    # a None level behaves like zeros (on the signal extent), also with separate row / column filters
    from pwv.props.c10 import ambiguous_none
    jn = case['k'] % J
    nmask = [1 if j == jn else 0 for j in range(J)]
    if not (mode == 'periodization' and ambiguous_none(nmask, [axH, axW])):
        dl = core.make(case['rx'], (case['N'], case['C']) + lo_shape)
        dh = [core.make({**case['rx'], 'seed': case['rx']['seed'] + 1 + j}, (case['N'], case['C']) + s_)
              for j, s_ in enumerate(hi_shapes)]
        zh = [np.zeros_like(h) if nmask[j] else h for j, h in enumerate(dh)]
        wantn = dwtu.ref_waverec2(dl, zh, refw, mode)
        ok, outn = lib(inv, (torch.tensor(dl), [None if nmask[j] else torch.tensor(h) for j, h in enumerate(dh)]))
        if not ok:
            mismatch('s', 'synthesis_none_raise', 'DWTInverse with level %d given as None raised: %s' % (jn + 1, outn))
        else:
            gotn = dwtu.to_np(outn)
            cmax = max([core.maxabs(dl)] + [core.maxabs(h) for h in zh])
            if gotn.shape[-2] < H or gotn.shape[-1] < W:
                mismatch('s', 'synthesis_none_shape', 'output %s smaller than the image %s' % (gotn.shape, (H, W)))
            else:
                okc, err = core.close(gotn[..., :H, :W], wantn[..., :H, :W], core.TOL64 * max(g * cmax, 1e-300))
                if not okc:
                    mismatch('s', 'synthesis_none_values', 'DWTInverse (col=%s,row=%s) with level %d given as None differs from '
                             'pywt.waverec2 with zeros: %s' % (wc, wr, jn + 1, core.first_mismatch(
                                 gotn[..., :H, :W], wantn[..., :H, :W], core.TOL64 * max(g * cmax, 1e-300))))
    if J == 1:
        f4 = _filters({**case, 'form': '4tuple'}, 'rec')
        t = [torch.tensor(yl[:, None])] + [torch.tensor(yh[0][:, None, i]) for i in range(3)]
        with dwtu.default_dtype(torch.float64):
            ok, o3 = lib(ll.sfb2d, t[0], t[1], t[2], t[3], f4, mode)
        if not ok:
            r.fail(o3.bucket, 'lowlevel.sfb2d raised: %s' % o3)
        else:
            okc, err = core.close(dwtu.to_np(o3)[:, 0], got, core.TOL64 * g)
            if not okc:
                r.fail('functional_sfb2d:%s' % mode, 'module differs from lowlevel.sfb2d with the same '
                       'four filters: ' + core.first_mismatch(dwtu.to_np(o3)[:, 0], got, 1e-11 * g))
    return r


LEVEL_TEXT = ('Generated-input search over ordered pairs of different wavelets, filter forms, modes, level '
              'counts and non-square/odd sizes: the analysis and synthesis operators of DWTForward/DWTInverse '
              'built from separate column/row filters are compared with PyWavelets called with one wavelet per '
              'axis, with the functional afb2d/sfb2d, and with the transposition relation.')
LEVEL_TEXT += (' Also generated: same-length pairs whose filters arrive through load_state_dict in a module born from one name, (wavelet, time-reversed wavelet) pairs, a None level, transposed views, overwritten caller arrays.')
LEVEL_NOTE = ('Pairs are sampled (filter length <= 40), sizes <= 20x20 (larger only to leave the known '
              'short-periodization finding); KF-D1 applies per axis with that axis filter length.')
TECHNIQUE = 'property-based testing (Hypothesis), differential oracle PyWavelets per-axis wavelets + metamorphic transposition'
