"""C03 - DTCWT analysis equals the reference dual-tree implementation."""
import numpy as np
import torch
from hypothesis import strategies as st

from pwv import core, dwtu, dtu
from pwv.core import Result, lib

ID = 'C03'
RULE = ('Hypothesis draws (biort in 4 documented names, qshift in 5 documented names + qshift_32, J in 1..5, '
        'H and W independently from {2..9} + {4k-1,4k,4k+1,4k+2} + {8k+r} <= 40, N, C in 1..3, dtype, content '
        'recipe; filters as names or arrays; a module with a past; for the dense input also an output layout (o_dim, ri_dim) from all 132 integer pairs incl. negative aliases, compared after moving the two axes back). Oracle: dtcwt.numpy.Transform2d.forward per (n,c) slice in float64: full operator on basis '
        'images when H*W <= 192, dense inputs always; shapes must follow the reference pyramid. Non-trivial = '
        'J>=2 with an odd or pad-to-4 size, or a non-default filter pair. Distinct = configuration without seeds.')
ASSUMPTIONS = ['the NumPy dtcwt 0.14 package is the reference', 'linearity (C07) extends basis agreement to all inputs',
               'tolerance 1e-11*max(1,gain*max|x|) float64, 64*eps32*gain*max|x| float32']
STRATA = {'thorough': 'all 24 filter pairs x J in 1..4', 'quick': ''}
LABEL_FLOORS = {'odd_rows': 0.2, 'odd_cols': 0.2, 'pad4_rows': 0.2, 'pad4_cols': 0.2}


def plan(tier):
    if tier == 'quick':
        return [{'n': 90} for _ in range(8)]
    units = [{'n': 40, 'biort': b, 'qshift': q, 'J': J} for b, q in dtu.PAIRS for J in (1, 2, 3, 4)]
    units += [{'n': 1000} for _ in range(16)]
    return units


# output layouts for the dense comparison: every ordered pair of distinct axis positions, written with non-negative
# or negative integers (the reference comparison is made after moving the two axes back)
LAYOUT_POOL = [(o, ri) for o in range(-6, 6) for ri in range(-6, 6) if o % 6 != ri % 6]


@st.composite
def _case(draw, unit):
    b, q = (unit['biort'], unit['qshift']) if unit.get('biort') else draw(dtu.pair_strategy())
    J = unit.get('J') or draw(st.sampled_from([1, 2, 2, 3, 3, 4, 5]))
    big = draw(st.integers(0, 9)) < 3
    cap = 40 if big else 16
    if draw(st.integers(0, 24)) == 0:
        cap = 160                     # occasionally far beyond the usual sizes
    return {'biort': b, 'qshift': q, 'J': J,
            'size': [draw(dtu.size_strategy(cap)), draw(dtu.size_strategy(cap))],
            'N': draw(st.sampled_from([1, 1, 2, 3])), 'C': draw(st.sampled_from([1, 2, 3, 3, 7, 33])),
            'dtype': draw(st.sampled_from(['f64', 'f64', 'f64', 'f32'])),
            'filt_form': draw(st.sampled_from(['names', 'names', 'names', 'tuples'])),
            'later_sibling': draw(st.integers(0, 2)) == 0,
            'reused': draw(st.integers(0, 2)) == 0, 'other_precision_first': draw(st.integers(0, 3)) == 0, 'ctx': draw(st.sampled_from(core.GRAD_CTXS)),
            'layout': list(draw(st.sampled_from([(2, -1)] * 5 + LAYOUT_POOL))),
            'rx': draw(core.recipe_strategy()), 'k': draw(st.integers(0, 10**6))}


def strategy(unit):
    return _case(unit)


def common_labels(r, case):
    H, W = case['size']
    J = case['J']
    labs = dtu.size_labels(H, W, J)
    r.label(*labs)
    r.label('J>=2' if J >= 2 else None, case['dtype'], 'nonsquare' if H != W else None, 'large_size' if max(H, W) > 40 else None,
            'filters_as_' + case.get('filt_form', 'names'),
            'nondefault_pair' if (case['biort'], case['qshift']) != ('near_sym_a', 'qshift_a') else None)
    r.nontrivial = (J >= 2 and bool(labs)) or (case['biort'], case['qshift']) != ('near_sym_a', 'qshift_a')


def run_case(case):
    with core.grad_ctx(case.get('ctx')):
        r = _run_case(case)
    return r.label('ctx_' + case['ctx']) if case.get('ctx', 'default') != 'default' else r


def _run_case(case):
    from pytorch_wavelets import DTCWTForward
    r = Result()
    b, q, J = case['biort'], case['qshift'], case['J']
    H, W = case['size']
    f32 = case['dtype'] == 'f32'
    tdt = dwtu.tdt(case['dtype'])
    common_labels(r, case)
    with dwtu.default_dtype(tdt):
        fb, fq = dtu.filt_args(b, q, case.get('filt_form', 'names'))
        twin = {'qshift_06': 'qshift_a', 'qshift_a': 'qshift_06'}.get(q)
        if case.get('reused') and twin:
            # the module had a previous life with the other 10-tap q-shift set (load_state_dict in between)
            r.label('reused_module')
            fwd = DTCWTForward(biort=b, qshift=twin, J=J)
            fwd(torch.ones(1, case['C'], 8, 8, dtype=tdt))
            fresh = DTCWTForward(biort=fb, qshift=fq, J=J)
            try:
                fwd.load_state_dict(fresh.state_dict())
            except RuntimeError:
                fwd = fresh         # buffers of the twin do not have the same shapes: no reuse possible
        else:
            fwd = DTCWTForward(biort=fb, qshift=fq, J=J)
    if case.get('later_sibling'):
        # between construction and use another transform with a different filter pair is constructed (and used once):
        # a module computes with its own construction parameters, not with the most recent ones in the process
        r.label('sibling_constructed_later')
        ob, oq = dtu.other_pair(b, q)
        with dwtu.default_dtype(tdt), torch.inference_mode(False):
            core.libcall(lambda: DTCWTForward(biort=ob, qshift=oq, J=max(J, 2))(torch.ones(1, case['C'], 8, 8, dtype=tdt)))
    if case.get('other_precision_first'):
        # earlier in the module's life: one call with an input of the other precision (outcome ignored)
        r.label('after_other_precision_call')
        dwtu.other_precision_call(fwd, [1, 1, 8, 8], tdt)
    g = 1.0
    if H * W <= 192:
        r.label('full_operator')
        B = dwtu.basis([H, W])
        ok, out = lib(fwd, torch.tensor(B[:, None], dtype=tdt))
        if not ok:
            return r.fail(out.bucket, 'forward raised on basis batch: %s' % out)
        yl, yh = out
        want, shapes = dtu.ref_forward_flat(B, b, q, J)
        got_shapes = [tuple(yl.shape[2:])] + [tuple(h.shape[2:]) for h in yh]
        if len(yh) != J or got_shapes != [tuple(s) for s in shapes]:
            return r.fail('shape', 'pyramid shapes %s, reference %s' % (got_shapes, shapes))
        got = dtu.lib_flat(yl, yh)
        g = max(1.0, float(np.abs(want).sum(0).max()))
        tol = (64 * core.EPS32 if f32 else core.TOL64) * g
        okc, err = core.close(got, want, tol)
        r.metric('operator_abs_err_' + case['dtype'], err)
        if not okc:
            r.fail('operator', 'DTCWT operator differs from the reference: ' + core.first_mismatch(got, want, tol))
        k = case['k'] % B.shape[0]
        ok, o1 = lib(fwd, torch.tensor(B[k:k + 1, None], dtype=tdt))
        if ok:
            okc, err = core.close(dtu.lib_flat(*o1)[0], got[k], (8 * tol if f32 else 1e-12 * g))
            if not okc:
                r.fail('batch_dependence', 'basis image %d alone differs from the batched call' % k)
        else:
            r.fail(o1.bucket, 'forward raised on a single basis image: %s' % o1)
    N, C = case['N'], case['C']
    x = core.make(case['rx'], [N, C, H, W])
    if f32:
        x = x.astype(np.float32).astype(np.float64)
    o_dim, ri_dim = case.get('layout', [2, -1])
    fwd_d = fwd

    def to_default(hs):
        rest = [d for d in range(6) if d not in (o_dim % 6, ri_dim % 6)]
        return [h.permute(rest[0], rest[1], o_dim % 6, rest[2], rest[3], ri_dim % 6) if h.dim() == 6 else h for h in hs]
    if (o_dim, ri_dim) != (2, -1):
        # the documented layout options only say where the orientation and the real/imaginary axes go
        r.label('nondefault_layout', 'negative_o_dim' if o_dim < 0 else None)
        with dwtu.default_dtype(tdt):
            ok, fwd_d = lib(lambda: DTCWTForward(biort=fb, qshift=fq, J=J, o_dim=o_dim, ri_dim=ri_dim))
        if not ok:
            return r.fail(fwd_d.bucket, 'constructing DTCWTForward(o_dim=%d, ri_dim=%d) raised: %s' % (o_dim, ri_dim, fwd_d))
    ok, out = lib(fwd_d, torch.tensor(x, dtype=tdt))
    if not ok:
        return r.fail(out.bucket, 'forward raised on dense input: %s' % out)
    yl, yh = out
    snap_d = dwtu.snapshot_out(out)
    if (o_dim, ri_dim) != (2, -1):
        exp6 = None
        for h in yh:
            rest = [d for d in range(6) if d not in (o_dim % 6, ri_dim % 6)]
            if h.dim() != 6 or h.shape[o_dim % 6] != 6 or h.shape[ri_dim % 6] != 2 or \
                    tuple(h.shape[d] for d in rest[:2]) != (N, C):
                exp6 = tuple(h.shape)
        if exp6 is not None:
            return r.fail('layout_shape', 'a highpass has shape %s for o_dim=%d, ri_dim=%d (orientations / real-imag / '
                          'batch / channel are not where the options put them)' % (exp6, o_dim, ri_dim))
        yh = to_default(yh)
    for t in [yl] + list(yh):
        if t.dtype != tdt:
            return r.fail('dtype', 'output dtype %s for %s input' % (t.dtype, tdt))
    want, shapes = dtu.ref_forward_flat(x.reshape(N * C, H, W), b, q, J)
    got_shapes = [tuple(yl.shape[2:])] + [tuple(h.shape[2:]) for h in yh]
    if len(yh) != J or got_shapes != [tuple(s) for s in shapes] or tuple(yl.shape[:2]) != (N, C):
        return r.fail('shape', 'pyramid shapes %s, reference %s' % (got_shapes, shapes))
    got = dtu.lib_flat(yl, yh)
    if g == 1.0:
        g = 4.0 ** J
    tol = (64 * core.EPS32 if f32 else core.TOL64) * max(g * core.maxabs(x), 1e-300)
    okc, err = core.close(got, want, tol)
    r.metric('dense_rel_err_' + case['dtype'], err / max(g * core.maxabs(x), 1e-300))
    if not okc:
        r.fail('dense', 'DTCWT of a dense input differs from the reference: ' + core.first_mismatch(got, want, tol))
    # the same call while autograd is recording must give the same numbers
    ok, out3 = lib(fwd_d, torch.tensor(x, dtype=tdt).requires_grad_(True))
    if not ok:
        return r.fail(out3.bucket, 'forward raised when the input requires grad: %s' % out3)
    got3 = dtu.lib_flat(out3[0], to_default(out3[1]))
    if got3.shape != got.shape or not core.close(got3, got, (4 * core.EPS32 if f32 else 1e-13) * max(g * core.maxabs(x), 1e-300))[0]:
        r.fail('depends_on_autograd_recording', 'coefficients differ between a plain call and a call whose input requires grad')
    lib(fwd_d, torch.tensor(x[..., ::-1].copy() * 0.5 + 1.0, dtype=tdt))
    dwtu.returned_intact(r, out, snap_d, 'DTCWTForward')
    return r


LEVEL_TEXT = ('Generated-input search over filter pairs, level counts and image sizes (odd / not multiple of 4 on '
              'either axis at any level): DTCWTForward is compared with the reference NumPy dtcwt package as a whole '
              'operator (basis images, images <= 192 pixels) and on dense inputs up to 40x40, including pyramid '
              'shapes, subband order and real/imag placement. Thorough tier visits all 24 pairs x J 1..4.')
LEVEL_TEXT += (' Also generated: filters as arrays, output layouts (o_dim, ri_dim) for the dense comparison, modules with a past, amplitude scales, autograd contexts.')
LEVEL_TEXT += (' Round 10: a sibling transform with another filter pair constructed and used between construction and use.')
LEVEL_NOTE = 'Trusts dtcwt 0.14 (NumPy backend) and linearity (C07); sampled sizes <= 40x40, J <= 5.'
TECHNIQUE = 'property-based testing (Hypothesis), differential oracle NumPy dtcwt on extracted operators'
