"""C04 - DTCWT perfect reconstruction with symmetric extension."""
import numpy as np
import torch

from pwv import core, dwtu, dtu
from pwv.core import Result, lib
from pwv.props import c03

ID = 'C04'
RULE = ('Generator of C03 (filter pair, J, independent H,W incl. odd / non-multiple-of-4, N, C, dtype, recipe). '
        'Oracle: inverse(forward(x))[..., :H, :W] == x as an operator identity on all basis images (H*W <= 192) and '
        'on dense inputs; output extent == even-extended input extent == the reference inverse extent. '
        'Non-trivial as C03.')
ASSUMPTIONS = ['tolerance (1e-9 + 8*J*r)*max|x| float64 where r is the measured orthonormality residual of the '
               'q-shift table (stored to ~9 digits: r=1.5e-9 for qshift_32, <=1e-11 otherwise), 256*eps32*2^J float32', 'reference used only for the output shape']
STRATA = c03.STRATA
LABEL_FLOORS = c03.LABEL_FLOORS
plan = c03.plan
strategy = c03.strategy


def run_case(case):
    with core.grad_ctx(case.get('ctx')):
        r = _run_case(case)
    return r.label('ctx_' + case['ctx']) if case.get('ctx', 'default') != 'default' else r


def _run_case(case):
    from pytorch_wavelets import DTCWTForward, DTCWTInverse
    r = Result()
    b, q, J = case['biort'], case['qshift'], case['J']
    H, W = case['size']
    f32 = case['dtype'] == 'f32'
    tdt = dwtu.tdt(case['dtype'])
    c03.common_labels(r, case)
    with dwtu.default_dtype(tdt):
        fb, fq = dtu.filt_args(b, q, case.get('filt_form', 'names'))
        ib, iq = dtu.filt_args(b, q, case.get('filt_form', 'names'), inverse=True)
        fwd = DTCWTForward(biort=fb, qshift=fq, J=J)
        inv = DTCWTInverse(biort=ib, qshift=iq)
    if case.get('other_precision_first'):
        # earlier in the modules' lives: one call each with data of the other precision (outcome ignored)
        r.label('after_other_precision_call')
        dwtu.other_precision_call(fwd, [1, 1, 8, 8], tdt)
        dwtu.other_precision_call(inv, None, tdt, lambda dt: (
            torch.ones(1, 1, 8, 8, dtype=dt), [torch.ones(1, 1, 6, 4, 4, 2, dtype=dt)]))
    inputs = []
    if H * W <= 192:
        r.label('full_operator')
        inputs.append(('operator', dwtu.basis([H, W])[:, None]))
    x = core.make(case['rx'], [case['N'], case['C'], H, W])
    if f32:
        x = x.astype(np.float32).astype(np.float64)
    inputs.append(('dense', x))
    He, We = H + H % 2, W + W % 2
    for name, inp in inputs:
        ok, out = lib(fwd, torch.tensor(inp, dtype=tdt))
        if not ok:
            return r.fail(out.bucket, 'forward raised: %s' % out)
        if name == 'dense':
            # another image goes through the same forward module before the first pyramid is inverted (what image
            # fusion does): the pyramid already returned must not be touched
            r.label('interleaved_forward_call')
            lib(fwd, torch.tensor(inp[..., ::-1, :].copy() * 0.5 + 1.0, dtype=tdt))
        ok, rec = lib(inv, (out[0], out[1]))
        if not ok:
            return r.fail(rec.bucket, 'inverse raised on the output of forward: %s' % rec)
        if tuple(rec.shape) != tuple(inp.shape[:2]) + (He, We):
            r.fail('shape', 'reconstruction shape %s for input %s (expected even extension %s)' %
                   (tuple(rec.shape), inp.shape, (He, We)))
            continue
        if rec.dtype != tdt:
            r.fail('dtype', 'reconstruction dtype %s' % rec.dtype)
        got = dwtu.to_np(rec)[..., :H, :W]
        scale = max(core.maxabs(inp), 1e-300)
        tol = (256 * core.EPS32 * 2 ** J if f32 else 1e-9 + 8 * J * dtu.qshift_residual(q)) * scale
        okc, err = core.close(got, inp, tol)
        r.metric('roundtrip_rel_err_%s_%s' % (name, case['dtype']), err / scale)
        if not okc:
            r.fail('pr_' + name, 'inverse(forward(x)) != x on the original extent (%s): %s' %
                   (name, core.first_mismatch(got, inp, tol)))
        if name == 'dense':
            # the extension rows/cols repeat the border (what the reference returns too)
            lo, his = dtu.ref_forward(inp[0, 0], b, q, J)
            rr = dtu.ref_inverse(lo, his, b, q)
            if rr.shape != tuple(rec.shape[2:]):
                r.fail('shape_vs_reference', 'reference inverse shape %s, library %s' % (rr.shape, tuple(rec.shape[2:])))
            else:
                okc, err = core.close(dwtu.to_np(rec)[0, 0], rr, tol)
                if not okc:
                    r.fail('extension_values', 'reconstruction differs from the reference on the extended extent: ' +
                           core.first_mismatch(dwtu.to_np(rec)[0, 0], rr, tol))
    return r


LEVEL_TEXT = ('Generated-input search: crop(inverse(forward(e_i))) = e_i for every basis image of each generated '
              'configuration (operator identity, images <= 192 pixels) and for dense inputs up to 40x40, over all filter '
              'pairs, J <= 5 and sizes that are odd or not multiples of 4 on either axis; output extent and the values on '
              'the even extension are compared with the reference.')
LEVEL_TEXT += (" Also generated: a second image passing through the forward module before the first pyramid is inverted, other-precision calls earlier in the modules' lives, autograd contexts.")
LEVEL_NOTE = 'Sampled configurations; float64 tolerance 1e-9 relative to max|x|; reference package used for extent/extension.'
TECHNIQUE = 'property-based testing (Hypothesis), round-trip oracle on extracted operators'
