"""C07 - transforms are linear and act per (batch, channel) slice."""
import numpy as np
import torch
from hypothesis import strategies as st

from pwv import core, dwtu, xf
from pwv.core import Result, lib

ID = 'C07'
SCALARS = [0.0, 1.0, -1.0, 2.0, 0.5, -0.25, 1e6, 1e-6, -3.0, 1e-12, -1e-20, 1e12]
RULE = ('Hypothesis draws a transform (DWT1D/2D forward and inverse, SWT, DTCWT forward/inverse with any axis layout / skip / '
        'scale options, functional afb2d/sfb2d and their non-separable versions) with its configuration, N,C in 1..4, two input '
        'recipes and scalars a,b from {0,+-1,2^k,1e+-6,1e+-12,1e-20} or generated floats. Oracles: (i) T(ax+by) = aT(x)+bT(y); (ii) T(0) is '
        'exactly zero; (iii) the per-slice matrix extracted from basis inputs (N=1,C=1 geometry) predicts every slice of T(x); '
        '(iv) T(x)[n,c] = T(x[n:n+1,c:c+1])[0,0]; (v) changing one slice - also to NaN or inf - leaves every other output slice bitwise unchanged; '
        '(vi) permuting batch items / channels permutes the outputs; (vii) for tiny cases the full (N*C*n)-column operator '
        'equals kron(I, A_slice). Non-trivial = N>=2 and C>=2. Distinct = configuration without seeds.')
ASSUMPTIONS = ['tolerance 1e-11*gain*(|a|max|x|+|b|max|y|) with gain = largest absolute row sum of the extracted slice operator',
               'CPU kernels deterministic: isolation (v) is checked bitwise']
STRATA = {'thorough': 'every transform kind (11)', 'quick': ''}
LABEL_FLOORS = {'N>=2,C>=2': 0.4}


def plan(tier):
    if tier == 'quick':
        return [{'n': 100} for _ in range(16)]
    units = [{'n': 1500, 'kind': k} for k in xf.LINEAR_KINDS]
    units += [{'n': 4000} for _ in range(16)]
    return units


@st.composite
def _case(draw, unit):
    cfg = draw(xf.cfg_strategy(kinds=[unit['kind']] if unit.get('kind') else None))
    sc = st.one_of(st.sampled_from(SCALARS), st.floats(-4, 4, allow_nan=False).map(lambda v: float('%.4g' % v)))
    NC = draw(st.sampled_from([(1, 1), (2, 2), (2, 3), (3, 2), (4, 4), (1, 3), (3, 1), (2, 2), (3, 3)]))
    if draw(st.integers(0, 19)) == 0:
        NC = draw(st.sampled_from([(1, 32), (2, 33), (1, 64), (33, 2), (2, 40)]))      # many channels / items (where kernels switch strategy)
    return {'cfg': cfg, 'N': NC[0], 'C': NC[1], 'a': draw(sc), 'b': draw(sc),
            'rx': draw(core.recipe_strategy()), 'ry': draw(core.recipe_strategy()),
            'k': draw(st.integers(0, 10**6))}


def strategy(unit):
    return _case(unit)


def run_case(case):
    r = Result()
    cfg = case['cfg']
    N, C, a, b = case['N'], case['C'], case['a'], case['b']
    kind = cfg['kind']
    r.label(kind, cfg.get('mode'), 'N>=2,C>=2' if (N >= 2 and C >= 2) else None,
            'separate_row_col_filters' if cfg.get('wave_row') else None,
            'nondefault_layout' if kind.startswith('dtcwt') and (cfg['o_dim'] % 6, cfg['ri_dim'] % 6) != (2, 5) else None,
            'J>=2' if cfg.get('J', 1) >= 2 else None, 'many_channels_or_items' if max(N, C) >= 32 else None)
    r.nontrivial = N >= 2 and C >= 2
    _, fn = xf.build(cfg)
    tin = xf.total_in(cfg)
    A = xf.slice_operator(lambda ins: core.libcall(fn, ins), cfg)          # (tout, tin)
    g = max(1.0, core.gain(A))
    x = xf.make_flat(case['rx'], cfg, N, C)
    y = xf.make_flat(case['ry'], cfg, N, C)
    mx, my = core.maxabs(x), core.maxabs(y)

    def T(v):
        return xf.per_slice(core.libcall(fn, xf.pack(v, cfg)))

    Tx, Ty = T(x), T(y)
    # (iii) the extracted matrix predicts every slice
    pred = np.einsum('oi,nci->nco', A, x)
    tol = core.TOL64 * max(g * mx, 1e-300)
    okc, err = core.close(Tx, pred, tol)
    r.metric('matrix_prediction_rel_err', err / max(g * mx, 1e-300))
    if not okc:
        r.fail('matrix_prediction:' + kind, 'T(x) is not the extracted per-slice matrix applied to every slice: ' +
               core.first_mismatch(Tx, pred, tol))
    # (i) superposition
    z = a * x + b * y
    Tz = T(z)
    want = a * Tx + b * Ty
    tol = core.TOL64 * max(g * (abs(a) * mx + abs(b) * my), 1e-300)
    okc, err = core.close(Tz, want, tol)
    if not okc:
        r.fail('superposition:' + kind, 'T(a*x+b*y) != a*T(x)+b*T(y) for a=%g b=%g: %s' % (a, b, core.first_mismatch(Tz, want, tol)))
    # (ii) T(0) = 0 exactly
    T0 = T(np.zeros_like(x))
    if np.any(T0 != 0):
        r.fail('zero_maps_to_nonzero:' + kind, 'T(0) has a non-zero entry %g' % T0.flat[np.argmax(np.abs(T0))])
    # (iv) slice law
    n0, c0 = case['k'] % N, (case['k'] // 7) % C
    Ts = T(x[n0:n0 + 1, c0:c0 + 1])
    tol = 1e-11 * max(g * mx, 1e-300)
    okc, err = core.close(Ts[0, 0], Tx[n0, c0], tol)
    if not okc:
        r.fail('slice_law:' + kind, 'slice (%d,%d) of the batched call differs from the call on that slice alone: %s' %
               (n0, c0, core.first_mismatch(Ts[0, 0], Tx[n0, c0], tol)))
    # (v) isolation: perturb one slice only
    x2 = x.copy()
    x2[n0, c0] = y[n0, c0] + 1.0
    T2 = T(x2)
    mask = np.ones((N, C), dtype=bool)
    mask[n0, c0] = False
    if T2.shape != Tx.shape or not np.array_equal(T2[mask], Tx[mask]):
        r.fail('isolation:' + kind, 'changing only slice (%d,%d) changed another output slice' % (n0, c0))
    # (v') isolation also holds when the other slice is not finite (0*nan = nan would leak through any
    # implementation that mixes slices with zero weights)
    for poison, name in ((np.nan, 'nan'), (np.inf, 'inf')):
        x3 = x.copy()
        if name == 'nan':
            x3[n0, c0] = poison
        else:
            x3[n0, c0, case['k'] % tin] = poison
        T3 = T(x3)
        if T3.shape != Tx.shape or not np.array_equal(T3[mask], Tx[mask]):
            r.fail('isolation_nonfinite:' + kind, 'a %s in slice (%d,%d) changed another output slice' % (name, n0, c0))
            break
    # (vi) permutation equivariance
    rs = np.random.RandomState(case['k'])
    pn, pc = rs.permutation(N), rs.permutation(C)
    Tp = T(x[pn][:, pc])
    okc, err = core.close(Tp, Tx[pn][:, pc], tol)
    if not okc:
        r.fail('permutation:' + kind, 'permuting batch items / channels does not permute the outputs: ' +
               core.first_mismatch(Tp, Tx[pn][:, pc], tol))
    # (vii) tiny: whole operator == kron(I, A)
    if N * C * tin <= 48 and N * C > 1:
        r.label('full_kron_check')
        for i in range(N * C * tin):
            e = np.zeros(N * C * tin)
            e[i] = 1.0
            Te = T(e.reshape(N, C, tin))
            want = np.zeros_like(Te)
            n_, rem = divmod(i, C * tin)
            c_, j_ = divmod(rem, tin)
            want[n_, c_] = A[:, j_]
            okc, err = core.close(Te, want, core.TOL64 * g)
            if not okc:
                r.fail('kron:' + kind, 'basis input %d of the full (N,C,...) space: output is not kron(I, A_slice): %s' %
                       (i, core.first_mismatch(Te, want, core.TOL64 * g)))
                break
    return r


LEVEL_TEXT = ('Generated-input search over every linear transform of the library and its options: superposition with generated '
              'scalars (incl. 0, 1e+-6), exact T(0)=0, agreement of every (n,c) output slice with one per-slice matrix extracted '
              'from basis inputs, the slice law, bitwise isolation between slices, permutation equivariance, and for tiny cases '
              'the complete operator against kron(I, A_slice).')
LEVEL_TEXT += (' Also generated: NaN/inf in neighbouring slices, scalars down to 1e-20, 32-64 channels, oriented gratings, inputs in image geometry.')
LEVEL_NOTE = ('Superposition over all input pairs cannot be exhausted; (iii)+(v)+(vii) reduce it to "the map is the matrix" on '
              'sampled inputs. Sizes <= 12x12 (1-D <= 40), filter length <= 12, float64.')
TECHNIQUE = 'property-based testing (Hypothesis), algebraic/metamorphic relations (superposition, slice isolation, permutation, kron structure)'
