"""C13 - stationary WT: undecimated, shift-equivariant, equals pywt.swt2."""
import numpy as np
import pywt
import torch
from hypothesis import strategies as st

from pwv import core, dwtu
from pwv.core import Result, lib

ID = 'C13'
RULE = ('Hypothesis draws (wavelet by family, J in 1..4, H,W = generated multiples of 2^J in 2..64 incl. '
        'images smaller than the dilated filter, about one case in 160 a batch of 2-4 million samples (up to 1024x1024), N, C, mode spelling in {default, periodization, periodic}, '
        'dtype, content recipe, circular shift). Oracles: pywt.swt2 (operator on basis inputs for images '
        '<= 256 pixels, dense inputs always), output structure (J tensors (N,C,4,H,W), finest first, '
        'A,H,V,D), and the metamorphic relation T(roll x) = roll T(x). Non-trivial = L>=4 or J>=2. '
        'Distinct = configuration without seeds.')
ASSUMPTIONS = ['pywt.swt2 (periodic boundary, no normalisation, trim_approx=False) is the reference',
               'tolerance 1e-11*max(1,gain*max|x|) float64, 64*eps32 float32']
STRATA = {'thorough': 'every wavelet (106) x J (1..4)', 'quick': ''}
LABEL_FLOORS = {'J>=2': 0.4}


def plan(tier):
    if tier == 'quick':
        return [{'n': 200} for _ in range(8)]
    units = [{'n': 50, 'wave': w, 'J': J} for w in dwtu.WAVES for J in (1, 2, 3, 4)]
    units += [{'n': 3000} for _ in range(16)]
    return units


HUGE = [(4, 4, 512, 512), (16, 2, 256, 512), (1, 3, 1024, 1024), (2, 3, 512, 1024), (8, 8, 256, 256), (3, 1, 1024, 768)]


@st.composite
def _case(draw, unit):
    w = unit.get('wave') or draw(dwtu.wavelet_strategy())
    J = unit.get('J') or draw(st.integers(1, 4))
    P = 2 ** J
    full = draw(st.booleans())
    cap = 16 if full else 64
    def dimn():
        return P * draw(st.integers(1, max(1, cap // P)))
    H, W = dimn(), dimn()
    N, C = draw(st.sampled_from([1, 2])), draw(st.sampled_from([1, 2, 3]))
    if 'wave' not in unit and draw(st.integers(0, 159)) == 0:
        # occasionally a batch of several million samples (where an implementation may start to work in chunks)
        w = draw(dwtu.wavelet_strategy(max_len=8))
        J = min(J, 2)
        N, C, H, W = draw(st.sampled_from(HUGE))
    return {'wave': w, 'J': J, 'size': [H, W], 'N': N,
            'C': C,
            'mode': draw(st.sampled_from(['default', 'periodization', 'periodic'])),
            'dtype': draw(st.sampled_from(['f64', 'f64', 'f64', 'f32'])),
            'shift': [draw(st.integers(-70, 70)), draw(st.integers(-70, 70))],
            'reused': draw(st.integers(0, 3)) == 0, 'ctx': draw(st.sampled_from(core.GRAD_CTXS)),
            'wave_row': (lambda pick: pick if pick != w else None)(draw(dwtu.wavelet_strategy(max_len=24)))
            if draw(st.integers(0, 3)) == 0 else None,
            'rx': draw(core.recipe_strategy()), 'k': draw(st.integers(0, 10**6))}


def strategy(unit):
    return _case(unit)


def wave_arg(case):
    """A name, or the 4-tuple (col lo, col hi, row lo, row hi) of separate column / row analysis filters."""
    if not case.get('wave_row'):
        return case['wave']
    wc, wr = pywt.Wavelet(case['wave']), pywt.Wavelet(case['wave_row'])
    return tuple(np.array(a) for a in (wc.dec_lo, wc.dec_hi, wr.dec_lo, wr.dec_hi))


def ref_swt2(x, w, J):
    c = pywt.swt2(x, w, level=J, axes=(-2, -1))       # coarsest first
    return [np.stack([cA, cH, cV, cD], axis=-3) for cA, (cH, cV, cD) in c[::-1]]


def run_case(case):
    with core.grad_ctx(case.get('ctx')):
        r = _run_case(case)
    return r.label('ctx_' + case['ctx']) if case.get('ctx', 'default') != 'default' else r


def _run_case(case):
    from pytorch_wavelets.dwt.transform2d import SWTForward
    r = Result()
    w, J = case['wave'], case['J']
    H, W = case['size']
    L = dwtu.flen(w)
    f32 = case['dtype'] == 'f32'
    tdt = dwtu.tdt(case['dtype'])
    r.label('J>=2' if J >= 2 else None, 'mode_' + case['mode'], case['dtype'],
            'smaller_than_dilated_filter' if min(H, W) < L * 2 ** (J - 1) else None,
            'nonsquare' if H != W else None, 'L>=20' if L >= 20 else None)
    r.nontrivial = L >= 4 or J >= 2
    r.label('millions_of_samples' if case['N'] * case['C'] * H * W >= 2 ** 21 else None)
    def make(wname):
        if wname == w:
            wname = wave_arg(case)
        if case['mode'] == 'default':
            return SWTForward(J=J, wave=wname)
        return SWTForward(J=J, wave=wname, mode=case['mode'])
    refw = (w, case['wave_row']) if case.get('wave_row') else w
    L = max(L, dwtu.flen(case['wave_row'])) if case.get('wave_row') else L
    r.label('separate_row_col_wavelets' if case.get('wave_row') else None)
    with dwtu.default_dtype(tdt):
        sib = dwtu.sibling(w) if (case.get('reused') and not case.get('wave_row')) else None
        if sib is None:
            mod = make(w)
        else:
            # the module had a previous life with another wavelet of the same length
            r.label('reused_module')
            mod = dwtu.reused_module(lambda: make(w), lambda: make(sib),
                                     lambda m: m(torch.ones(1, case['C'], H, W, dtype=tdt)))

    def flat(out):
        return np.concatenate([dwtu.to_np(t).reshape(t.shape[0], -1) for t in out], axis=1)

    def check_struct(out, n, c):
        if not isinstance(out, (list, tuple)) or len(out) != J:
            return 'expected a list of %d tensors' % J
        for t in out:
            if tuple(t.shape) != (n, c, 4, H, W):
                return 'level shape %s, expected %s' % (tuple(t.shape), (n, c, 4, H, W))
            if t.dtype != tdt:
                return 'dtype %s for %s input' % (t.dtype, tdt)
        return None

    g = 1.0
    if H * W <= 256 and L * 2 ** (J - 1) <= 256:
        r.label('full_operator')
        B = dwtu.basis([H, W])
        ok, out = lib(mod, torch.tensor(B[:, None], dtype=tdt))
        if not ok:
            return r.fail(out.bucket, 'SWTForward raised: %s' % out)
        e = check_struct(out, B.shape[0], 1)
        if e:
            return r.fail('structure', e)
        want = np.concatenate([t.reshape(t.shape[0], -1) for t in ref_swt2(B, refw, J)], axis=1)
        got = flat(out)
        g = max(1.0, float(np.abs(want).sum(0).max()))
        tol = (64 * core.EPS32 if f32 else core.TOL64) * g
        okc, err = core.close(got, want, tol)
        r.metric('operator_abs_err_' + case['dtype'], err)
        if not okc:
            r.fail('operator', 'SWT operator differs from pywt.swt2: ' + core.first_mismatch(got, want, tol))
    N, C = case['N'], case['C']
    x = core.make(case['rx'], [N, C, H, W])
    if f32:
        x = x.astype(np.float32).astype(np.float64)
    ok, out = lib(mod, torch.tensor(x, dtype=tdt))
    if not ok:
        return r.fail(out.bucket, 'SWTForward raised on dense input: %s' % out)
    e = check_struct(out, N, C)
    if e:
        return r.fail('structure', e)
    ref = ref_swt2(x, refw, J)
    want = np.concatenate([t.reshape(N, -1) for t in ref], axis=1)
    got = flat(out)
    if g == 1.0:
        g = max(1.0, float(np.sum(np.abs(pywt.Wavelet(w).dec_lo))) ** (2 * J))
    tol = (64 * core.EPS32 if f32 else core.TOL64) * max(g * core.maxabs(x), 1e-300)
    okc, err = core.close(got, want, tol)
    r.metric('dense_rel_err_' + case['dtype'], err / max(g * core.maxabs(x), 1e-300))
    if not okc:
        r.fail('dense', 'SWT differs from pywt.swt2 on dense input: ' + core.first_mismatch(got, want, tol))
    # shift equivariance, independent of PyWavelets
    sy, sx = case['shift']
    ok, out2 = lib(mod, torch.tensor(np.roll(x, (sy, sx), axis=(-2, -1)), dtype=tdt))
    if not ok:
        return r.fail(out2.bucket, 'SWTForward raised on shifted input: %s' % out2)
    got2 = np.concatenate([np.roll(dwtu.to_np(t), (-sy, -sx), axis=(-2, -1)).reshape(N, -1)
                           for t in out2], axis=1)
    tol = (16 * core.EPS32 if f32 else 1e-12) * max(g * core.maxabs(x), 1e-300)
    okc, err = core.close(got2, got, tol)
    if not okc:
        r.fail('shift_equivariance', 'T(roll(x,%s)) != roll(T(x)): %s' % (
            (sy, sx), core.first_mismatch(got2, got, tol)))
    return r


LEVEL_TEXT = ('Generated-input search over all wavelets, level counts, admissible sizes (incl. smaller than the '
              'dilated filter), mode spellings and dtypes: SWTForward is compared as a whole operator and on '
              'dense inputs with pywt.swt2, its output structure is checked, and circular-shift equivariance is '
              'checked independently of PyWavelets.')
LEVEL_TEXT += (' Also generated: separate row/column wavelets, modules with a past, autograd contexts, batches of 2-4 million samples.')
LEVEL_NOTE = 'Sampled sizes <= 64x64 (full operators <= 256 pixels) plus occasional batches of 2-4 million samples; trusts pywt.swt2; relies on the fix: commit for SWTForward.'
TECHNIQUE = 'property-based testing (Hypothesis), differential oracle pywt.swt2 + metamorphic shift relation'
