"""C05 - DWT back-propagation is the exact adjoint, for every grad subset."""
import numpy as np
import pywt
import torch
from hypothesis import strategies as st

from pwv import core, dwtu
from pwv.core import Result, lib

ID = 'C05'
PADMODES = ('symmetric', 'reflect', 'periodic')
RULE = ('Hypothesis draws (dim, direction analysis/synthesis, wavelet with filter length <= 20, mode (5), J in 1..3, sizes '
        'incl. odd and shorter than the filter (1-D <= 48, 2-D <= 12x12), N, C, the subset of {lowpass, level 1..J} that '
        'requires grad (synthesis), in 2-D for a third of the cases separate column and row wavelets (4-tuple), cotangent recipes; in zero mode for a third of the free cases a hand-made bank with 3-9 taps (odd counts included); for a quarter of the cases the filters of the module are overwritten in place between the forward pass and a second pull-back through the recorded graph, which must be refused or unchanged). Oracle: the matrix J_f of the function computed by the forward pass '
        '(basis inputs, no_grad); torch.autograd.grad with basis cotangents in batch slots must give J_f^T for every input of '
        'the subset (never None); a dense (N,C) VJP must equal the per-slice action of that matrix. Inside the predicate of '
        'known finding D2 the observed VJP must equal EITHER J_f^T OR the independently modelled defective operator (adjoint '
        'of the zero-padded bank, built from PyWavelets). Non-trivial = proper subset or odd size or J>=2 or mode != zero. '
        'Distinct = configuration without seeds.')
ASSUMPTIONS = ['the forward pass defines the function whose adjoint is demanded',
               'PyWavelets single-level matrices are used only to model the known defective backward (D2a/b/c)',
               'tolerance 1e-11*max(1,gain) float64']
STRATA = {'thorough': 'wavelets with L<=20 (66) x 5 modes x direction x dim', 'quick': ''}
LABEL_FLOORS = {'synthesis': 0.35, 'analysis': 0.35, 'odd': 0.25}
W20 = [w for w in dwtu.WAVES if dwtu.flen(w) <= 20]


def plan(tier):
    if tier == 'quick':
        return [{'n': 110} for _ in range(16)]
    units = [{'n': 12, 'wave': w, 'mode': m, 'direction': d, 'dim': dim}
             for w in W20 for m in dwtu.MODES5 for d in ('analysis', 'synthesis') for dim in (1, 2)]
    units += [{'n': 4000} for _ in range(16)]
    return units


@st.composite
def _case(draw, unit):
    dim = unit.get('dim') or draw(st.sampled_from([1, 1, 2]))
    w = unit.get('wave') or draw(dwtu.wavelet_strategy(max_len=20))
    mode = unit.get('mode') or draw(st.sampled_from(dwtu.MODES5))
    L = dwtu.flen(w)
    J = draw(st.sampled_from([1, 1, 2, 3]))
    cap = 48 if dim == 1 else 12
    size = [draw(dwtu.size_strategy(L, J, cap=cap)) for _ in range(dim)]
    if mode == 'periodization' and draw(st.integers(0, 99)) >= 10:
        need = dwtu.even_up(L) * 2 ** (J - 1)
        while need > (64 if dim == 1 else 20) and J > 1:
            J -= 1
            need = dwtu.even_up(L) * 2 ** (J - 1)
        size = [max(s, need) for s in size]
    direction = unit.get('direction') or draw(st.sampled_from(['analysis', 'synthesis']))
    w2 = None
    if dim == 2 and draw(st.integers(0, 2)) == 0:
        # separate column / row filters (4-tuple), constructed to differ
        pick = draw(dwtu.wavelet_strategy(max_len=20))
        w2 = pick if pick != w else W20[(W20.index(w) + 1 + draw(st.integers(0, len(W20) - 2))) % len(W20)]
        L2 = dwtu.flen(w2)
        size[1] = draw(dwtu.size_strategy(L2, J, cap=cap))
        if mode == 'periodization':
            size[1] = max(size[1], dwtu.even_up(L2) * 2 ** (J - 1))
    custom = None
    if not unit.get('wave') and mode == 'zero' and w2 is None and draw(st.integers(0, 2)) == 0:
        # a hand-made filter bank, also with an odd number of taps (LeGall 5/3- or 9/7-like banks padded to a common
        # length): the adjoint relation does not care what the taps are
        Lc = draw(st.sampled_from([3, 5, 5, 7, 9, 4, 6]))
        taps = st.sampled_from([-0.125, 0.25, 0.75, 0.5, -0.5, 1.0, 0.0, 0.375, -1.0, 0.0625])
        custom = {'lo': [draw(taps) for _ in range(Lc)], 'hi': [draw(taps) for _ in range(Lc)]}
        if not any(custom['lo']):
            custom['lo'][Lc // 2] = 1.0
        if not any(custom['hi']):
            custom['hi'][Lc // 2] = 1.0
        size = [draw(dwtu.size_strategy(Lc, J, cap=cap)) for _ in range(dim)]
    case = {'dim': dim, 'direction': direction, 'wave': w, 'wave_row': w2, 'mode': mode, 'J': J, 'size': size, 'custom': custom,
            'N': draw(st.sampled_from([1, 2])), 'C': draw(st.sampled_from([1, 2])),
            'reused': draw(st.integers(0, 3)) == 0, 'overwrite': draw(st.integers(0, 3)) == 0,
            'shared_batch': draw(st.integers(0, 2)) == 0,
            'rx': draw(core.recipe_strategy()), 'rg': draw(core.recipe_strategy(kinds=core.RECIPE_KINDS + ['contrast'])), 'k': draw(st.integers(0, 10**6))}
    if direction == 'synthesis':
        names = ['low'] + list(range(J))
        k = draw(st.sampled_from(['all', 'one', 'one', 'rand', 'highs_only']))
        if k == 'all':
            sub = names
        elif k == 'one':
            sub = [names[draw(st.integers(0, J))]]
        elif k == 'highs_only':
            sub = list(range(J))
        else:
            sub = [n for n in names if draw(st.booleans())] or [names[draw(st.integers(0, J))]]
        case['grad'] = sub
        case['zero_valued'] = [n_ for n_ in names if draw(st.integers(0, 3)) == 0]
    else:
        case['zero_input'] = draw(st.integers(0, 5)) == 0
    return case


def strategy(unit):
    return _case(unit)


# ---------------------------------------------------------------- PyWavelets single-level matrices
def _lvl(n, wave, mode):
    cA, cD = pywt.dwt(np.eye(n), wave, mode=mode, axis=0)
    return cA, cD


def _defect_lvl(n, wave, mode):
    """What the pinned AFB backward is the transpose of (finding D2a / D2b)."""
    if mode in PADMODES:
        return _lvl(n, wave, 'zero')
    if mode == 'periodization' and n % 2 == 1:
        a, d = _lvl(n + 1, wave, 'periodization')
        return a[:, :n], d[:, :n]
    return _lvl(n, wave, mode)


def _kron(mats):
    return mats[0] if len(mats) == 1 else np.kron(mats[0], mats[1])


def _bands(lo, hi):
    """(low block, stacked high blocks) of one level from per-axis (lo, hi)."""
    if len(lo) == 1:
        return lo[0], hi[0]
    low = np.kron(lo[0], lo[1])
    highs = np.vstack([np.kron(hi[0], lo[1]), np.kron(lo[0], hi[1]), np.kron(hi[0], hi[1])])
    return low, highs


def analysis_defect_model(size, waves, mode, J):
    """B (total x n_in): the pinned backward equals B^T g; rows ordered
    [yl, yh_1 (finest), ..., yh_J], 2-D bands (LH, HL, HH)."""
    n_in = int(np.prod(size))
    Bprev = np.eye(n_in)
    cur = list(size)
    highs = []
    for _ in range(J):
        mats = [_defect_lvl(n, wv, mode) for n, wv in zip(cur, waves)]
        low, hi = _bands([m[0] for m in mats], [m[1] for m in mats])
        highs.append(hi @ Bprev)
        Bprev = low @ Bprev
        cur = [m[0].shape[0] for m in mats]
    return np.vstack([Bprev] + highs)


def synthesis_defect_model(lo_shape, hi_shapes, waves, mode):
    """Bm (total x n_out): the pinned SFB backward chain gives Bm @ g. Rows
    ordered [yl, yh_1 (finest), ...]. Returns None if the model does not apply
    (shape mismatch)."""
    dim = len(lo_shape)
    Ls = [wv.dec_len for wv in waves]
    cws = [pywt.Wavelet('c', filter_bank=[wv.rec_lo[::-1], wv.rec_hi[::-1], wv.rec_lo, wv.rec_hi]) for wv in waves]
    J = len(hi_shapes)
    ks = [tuple(s[-dim:]) for s in hi_shapes]
    # forward chain of shapes, coarsest to finest
    cur = tuple(lo_shape)
    chain = []                       # per level j: (shape_before_crop, k_j, out_shape)
    for j in range(J - 1, -1, -1):
        k = ks[j]
        out = tuple((2 * a if mode == 'periodization' else 2 * a - L + 2) for a, L in zip(k, Ls))
        chain.append((j, cur, k, out))
        cur = out
    n_out = int(np.prod(cur))
    sizes = [int(np.prod(lo_shape))] + [int(np.prod(s)) for s in hi_shapes]
    offs = np.cumsum([0] + sizes)
    Bm = np.zeros((sum(sizes), n_out))
    G = np.eye(n_out)
    for (j, before, k, out) in reversed(chain):
        Ws = [pywt.dwt(np.eye(o), cw, mode=mode, axis=0) for o, cw in zip(out, cws)]
        if any(W[0].shape[0] != kk for W, kk in zip(Ws, k)):
            return None
        low, hi = _bands([W[0] for W in Ws], [W[1] for W in Ws])
        Bm[offs[j + 1]:offs[j + 2]] = hi @ G
        Gl = low @ G                                          # (prod(k), n_out)
        if tuple(before) != tuple(k):                         # undo the 'unpad': zero rows
            Gl = Gl.reshape(tuple(k) + (n_out,))
            pad = [(0, b - kk) for b, kk in zip(before, k)] + [(0, 0)]
            if any(p[1] < 0 for p in pad):
                return None
            Gl = np.pad(Gl, pad).reshape(-1, n_out)
        G = Gl
    Bm[:sizes[0]] = G
    return Bm


# ---------------------------------------------------------------- the check
def _lens(case):
    """Filter length per axis (hand-made banks carry their taps in the case)."""
    if case.get('custom'):
        return [len(case['custom']['lo'])] * case['dim']
    return [dwtu.flen(n_) for n_ in _wave_names(case)]


def _waves(case):
    return None if case.get('custom') else [pywt.Wavelet(n_) for n_ in _wave_names(case)]


def _wave_names(case):
    if case['dim'] == 1:
        return [case['wave']]
    return [case['wave'], case.get('wave_row') or case['wave']]


def _wave_arg(case, kind):
    """The `wave` constructor argument: a name, a hand-made (lo, hi) pair, or a 4-tuple (col lo, col hi, row lo, row hi)."""
    if case.get('custom'):
        return (np.array(case['custom']['lo'], dtype=np.float64), np.array(case['custom']['hi'], dtype=np.float64))
    if not case.get('wave_row'):
        return case['wave']
    wc, wr = pywt.Wavelet(case['wave']), pywt.Wavelet(case['wave_row'])
    if kind == 'dec':
        return (np.array(wc.dec_lo), np.array(wc.dec_hi), np.array(wr.dec_lo), np.array(wr.dec_hi))
    return (np.array(wc.rec_lo), np.array(wc.rec_hi), np.array(wr.rec_lo), np.array(wr.rec_hi))


def _flat(ts):
    return torch.cat([t.reshape(t.shape[0], -1) for t in ts], dim=1)


def run_case(case):
    r = Result()
    dim, w, mode, J = case['dim'], case['wave'], case['mode'], case['J']
    size = list(case['size'])
    names = _wave_names(case)
    Ls = _lens(case)
    per_axis = [dwtu.level_lengths(n, L, mode, J) for n, L in zip(size, Ls)]
    r.label('dim%d' % dim, case['direction'], mode, 'J>=2' if J >= 2 else None,
            'odd' if any(n % 2 for n in size) else None, 'short<L' if any(n < L for n, L in zip(size, Ls)) else None,
            'separate_row_col_filters' if case.get('wave_row') else None,
            'hand_made_bank' if case.get('custom') else None, 'odd_tap_count' if case.get('custom') and Ls[0] % 2 else None)
    with dwtu.default_dtype(torch.float64):
        if case['direction'] == 'analysis':
            return _analysis(case, r, per_axis)
        return _synthesis(case, r, per_axis)


def _analysis(case, r, per_axis):
    from pytorch_wavelets import DWT1DForward, DWTForward
    dim, w, mode, J = case['dim'], case['wave'], case['mode'], case['J']
    size = list(case['size'])
    names = _wave_names(case)
    Ls = _lens(case)
    waves = _waves(case)
    in_d1 = any(dwtu.d1_analysis(ns, L, mode) or dwtu.d1_synthesis(ks, L, mode) for (ns, ks), L in zip(per_axis, Ls))
    may_raise = any(dwtu.reflect_may_raise(ns, L, mode) for (ns, _), L in zip(per_axis, Ls))
    d2a = mode in PADMODES
    d2b = mode == 'periodization' and any(n % 2 for ns, _ in per_axis for n in ns)
    r.label('in_D2_predicate' if (d2a or d2b) else None, 'in_D1_predicate' if in_d1 else None)
    r.nontrivial = J >= 2 or any(n % 2 for n in size) or mode != 'zero'
    cls = DWT1DForward if dim == 1 else DWTForward
    sib = dwtu.sibling(w) if (case.get('reused') and not case.get('wave_row') and not case.get('custom') and mode != 'reflect') else None
    if sib is None:
        fwd = cls(J=J, wave=_wave_arg(case, 'dec'), mode=mode)
    else:
        r.label('reused_module')

        def warm(m):
            xw = torch.ones([1, 1] + [max(size) + 2 * max(Ls)] * dim, requires_grad=True)
            yl_, yh_ = m(xw)
            (yl_.sum() + sum(h.sum() for h in yh_)).backward()
        fwd = dwtu.reused_module(lambda: cls(J=J, wave=w, mode=mode), lambda: cls(J=J, wave=sib, mode=mode), warm)
    n_in = int(np.prod(size))
    with torch.no_grad():
        ok, out = lib(fwd, torch.tensor(dwtu.basis(size)[:, None]))
    if not ok:
        if may_raise:
            r.allowed_rejection = True
            return r.label('rejected_reflect_short')
        return r.fail(out.bucket, 'forward raised: %s' % out)
    A = _flat([out[0]] + list(out[1])).numpy()              # (n_in, total): row i = T e_i
    total = A.shape[1]
    g = core.gain(A)
    tol = core.TOL64 * max(1.0, g)
    Cg, full = dwtu.basis_rows(total, case['k'], cap=640, sub=64)
    r.label('full_jacobian' if full else 'jacobian_row_subset')
    K = Cg.shape[0]
    x0 = core.make(case['rx'], [1, 1] + size)
    if case.get('zero_input'):
        x0 = np.zeros_like(x0)
        r.label('zero_valued_input')
    X = torch.tensor(np.repeat(x0, K, axis=0), requires_grad=True)
    o2 = core.libcall(fwd, X)
    F = _flat([o2[0]] + list(o2[1]))
    ct = torch.tensor(Cg)
    ok, G = lib(torch.autograd.grad, F, X, ct, allow_unused=True, retain_graph=True)
    if not ok:
        return r.fail('backward_raise:' + G.bucket, 'backward raised: %s' % G)
    if not torch.equal(ct, torch.tensor(Cg)):
        return r.fail('cotangent_mutated', 'the backward pass modified the cotangent tensor it was given')
    ok, Gb = lib(torch.autograd.grad, F, X, -2.0 * ct, allow_unused=True)
    if not ok:
        return r.fail('second_backward_raise:' + Gb.bucket, 'a second backward pass through the same graph raised: %s' % Gb)
    if G[0] is not None and (Gb[0] is None or float((Gb[0] + 2.0 * G[0]).abs().max()) > core.TOL64 * max(float(G[0].abs().max()), 1e-300)):
        return r.fail('second_backward_differs', 'pulling back -2g through the same graph is not -2 x the pull-back of g')
    if G[0] is None:
        return r.fail('none_grad:x', 'the signal requires grad but received None')
    got = G[0].numpy().reshape(K, n_in)
    want = Cg @ A.T
    okc, err = core.close(got, want, tol)
    if okc:
        r.metric('vjp_abs_err', err)
        r.label('true_adjoint')
    else:
        msg = 'backward of the forward DWT is not J^T g: ' + core.first_mismatch(got, want, tol)
        matched = False
        if d2a or d2b:
            B = analysis_defect_model(size, waves, mode, J)
            if B.shape == (total, n_in):
                okm, _ = core.close(got, Cg @ B, tol)
                matched = okm
        if matched and d2a and core.kf_open('KF-D2a', ID):
            r.known('KF-D2a', msg)
        elif matched and d2b and core.kf_open('KF-D2b', ID):
            r.known('KF-D2b', msg)
        elif in_d1 and core.kf_open('KF-D1-analysis', ID):
            r.known('KF-D1-analysis', msg)
        else:
            r.fail('analysis_vjp:%s:dim%d' % (mode, dim), msg + ('' if not (d2a or d2b) else
                   ' (and it is not the modelled zero-padded-adjoint of known finding D2 either)'))
    # dense (N,C) VJP equals the per-slice action of the measured matrix
    if full:
        N, C = case['N'], case['C']
        xs = torch.tensor(core.make(case['rx'], [N, C] + size), requires_grad=True)
        o3 = core.libcall(fwd, xs)
        gs = [core.make({**case['rg'], 'seed': case['rg']['seed'] + i}, t.shape) for i, t in enumerate([o3[0]] + list(o3[1]))]
        Gd, = torch.autograd.grad([o3[0]] + list(o3[1]), xs, [torch.tensor(a) for a in gs])
        gflat = np.concatenate([a.reshape(N, C, -1) for a in gs], axis=2)       # (N,C,total)
        wantd = np.einsum('nct,ti->nci', gflat, got).reshape([N, C] + size)
        told = core.TOL64 * max(g * max(core.maxabs(a) for a in gs), core.maxabs(wantd), 1e-300)
        okc, err = core.close(Gd.numpy(), wantd, told)
        if not okc:
            r.fail('analysis_vjp_slices:dim%d' % dim, 'the (N,C) backward is not the per-slice action of the N=C=1 backward: '
                   + core.first_mismatch(Gd.numpy(), wantd, told))
    if case.get('overwrite') and not r.failed:
        xs = torch.tensor(core.make(case['rx'], [case['N'], case['C']] + size), requires_grad=True)
        o4 = core.libcall(fwd, xs)
        outs = [o4[0]] + list(o4[1])
        cts = [torch.tensor(core.make({**case['rg'], 'seed': case['rg']['seed'] + i}, t.shape)) for i, t in enumerate(outs)]
        dwtu.backward_after_overwrite(r, fwd, outs, [xs], cts, 'forward DWT', pick=case['k'])
    return r


def _synthesis(case, r, per_axis):
    from pytorch_wavelets import DWT1DInverse, DWTInverse
    dim, w, mode, J = case['dim'], case['wave'], case['mode'], case['J']
    size = list(case['size'])
    wnames = _wave_names(case)
    Ls = _lens(case)
    waves = _waves(case)
    sub = case['grad']
    names = ['low'] + list(range(J))
    in_d1 = any(dwtu.d1_synthesis(ks, L, mode) or dwtu.d1_analysis([2 * k for k in ks], L, mode)
                for (_, ks), L in zip(per_axis, Ls))
    d2c = mode in PADMODES
    r.label('in_D2_predicate' if d2c else None, 'in_D1_predicate' if in_d1 else None,
            'proper_grad_subset' if len(sub) < J + 1 else None,
            'low_without_grad' if 'low' not in sub else None)
    r.nontrivial = len(sub) < J + 1 or J >= 2 or any(n % 2 for n in size) or mode != 'zero'
    cls = DWT1DInverse if dim == 1 else DWTInverse
    sib = dwtu.sibling(w) if (case.get('reused') and not case.get('wave_row') and not case.get('custom') and mode != 'reflect') else None
    if sib is None:
        inv = cls(wave=_wave_arg(case, 'rec'), mode=mode)
    else:
        r.label('reused_module')

        def warm(m):
            k_ = 2 * Ls[0] + 2
            yl_ = torch.ones([1, 1] + [k_] * dim, requires_grad=True)
            yh_ = torch.ones([1, 1] + ([k_] if dim == 1 else [3, k_, k_]), requires_grad=True)
            m((yl_, [yh_])).sum().backward()
        inv = dwtu.reused_module(lambda: cls(wave=w, mode=mode), lambda: cls(wave=sib, mode=mode), warm)
    if dim == 1:
        lo_shape, hi_shapes = dwtu.pyr_shapes(size, Ls[0], mode, J)
    else:
        kh, kw = per_axis[0][1], per_axis[1][1]
        lo_shape, hi_shapes = (kh[-1], kw[-1]), [(3, a, b) for a, b in zip(kh, kw)]
    shapes = {'low': tuple(lo_shape)}
    for j in range(J):
        shapes[j] = tuple(hi_shapes[j])
    sizes = {k: int(np.prod(shapes[k])) for k in names}
    total = sum(sizes.values())
    offs, o_ = {}, 0
    for k in names:
        offs[k] = o_
        o_ += sizes[k]

    def build(arrs, req):
        ts = {k: torch.tensor(arrs[k][:, None]).requires_grad_(k in req) for k in names}
        return ts['low'], [ts[j] for j in range(J)], ts

    with torch.no_grad():
        I = np.eye(total)
        arrs = {k: I[:, offs[k]:offs[k] + sizes[k]].reshape((total,) + shapes[k]) for k in names}
        low, highs, _ = build(arrs, [])
        ok, out = lib(inv, (low, highs))
    if not ok:
        return r.fail(out.bucket, 'inverse raised on a forward-compatible pyramid: %s' % out)
    S = out.reshape(total, -1).numpy()                  # row i = S e_i
    n_out = S.shape[1]
    out_shape = tuple(out.shape[2:])
    g = core.gain(S.T)
    tol = core.TOL64 * max(1.0, g)
    Cg, full = dwtu.basis_rows(n_out, case['k'], cap=640, sub=64)
    r.label('full_jacobian' if full else 'jacobian_row_subset')
    K = Cg.shape[0]
    p0 = {k: core.make({**case['rx'], 'seed': case['rx']['seed'] + i}, (1,) + shapes[k]) for i, k in enumerate(names)}
    for k in case.get('zero_valued', []):
        p0[k] = np.zeros_like(p0[k])
    r.label('zero_valued_level' if case.get('zero_valued') else None)
    low, highs, ts = build({k: np.repeat(p0[k], K, axis=0) for k in names}, sub)
    y = core.libcall(inv, (low, highs))
    ct = torch.tensor(Cg)
    ok, G = lib(torch.autograd.grad, y.reshape(K, -1), [ts[k] for k in sub], ct, allow_unused=True, retain_graph=True)
    if ok:
        if not torch.equal(ct, torch.tensor(Cg)):
            return r.fail('cotangent_mutated', 'the backward pass modified the cotangent tensor it was given')
        ok2, Gb = lib(torch.autograd.grad, y.reshape(K, -1), [ts[k] for k in sub], -2.0 * ct, allow_unused=True)
        if not ok2:
            return r.fail('second_backward_raise:' + Gb.bucket, 'a second backward pass through the same graph raised: %s' % Gb)
        for g1_, g2_ in zip(G, Gb):
            if g1_ is not None and (g2_ is None or float((g2_ + 2.0 * g1_).abs().max()) > core.TOL64 * max(float(g1_.abs().max()), 1e-300)):
                return r.fail('second_backward_differs', 'pulling back -2g through the same graph is not -2 x the pull-back of g')
    out_may_raise = mode == 'reflect' and any((n % 2 == 0 and n <= L - 2) or (n % 2 == 1 and n <= L - 1)
                                              for n, L in zip(out_shape, Ls))
    if not ok:
        if d2c and out_may_raise and core.kf_open('KF-D2c', ID):
            # the defective backward runs the analysis bank in reflect mode on the cotangent, which torch rejects
            # for short signals
            return r.known('KF-D2c', 'backward raised (reflect padding of a short cotangent): %s' % G)
        return r.fail('backward_raise:' + G.bucket, 'backward raised (subset %s): %s' % (sub, G))
    Bm = None
    measured = {}
    for k, gk in zip(sub, G):
        what = 'low' if k == 'low' else 'high'
        if gk is None:
            r.fail('none_grad:%s' % what, '%s requires grad but received None (subset %s)' % (k, sub))
            continue
        got = gk.numpy().reshape(K, -1)
        measured[k] = got
        want = Cg @ S[offs[k]:offs[k] + sizes[k], :].T
        okc, err = core.close(got, want, tol)
        if okc:
            r.metric('vjp_abs_err', err)
            r.label('true_adjoint')
            continue
        msg = 'gradient of %s is not S^T g (subset %s): %s' % (k, sub, core.first_mismatch(got, want, tol))
        matched = False
        if d2c:
            if Bm is None:
                Bm = synthesis_defect_model(lo_shape, hi_shapes, waves, mode)
            if Bm is not None and Bm.shape == (total, n_out):
                matched, _ = core.close(got, Cg @ Bm[offs[k]:offs[k] + sizes[k], :].T, tol)
        if matched and core.kf_open('KF-D2c', ID):
            r.known('KF-D2c', msg)
        elif in_d1 and core.kf_open('KF-D1-synthesis', ID):
            r.known('KF-D1-synthesis', msg)
        else:
            r.fail('synthesis_vjp:%s:%s:dim%d' % (what, mode, dim), msg + ('' if not d2c else
                   ' (and it is not the modelled same-mode-analysis operator of known finding D2c either)'))
    # dense (N,C): per-slice action of the measured matrices
    if full and not r.failed and len(measured) == len(sub):
        N, C = case['N'], case['C']
        pd = {k: core.make({**case['rx'], 'seed': case['rx']['seed'] + 7 + i}, (N, C) + shapes[k]) for i, k in enumerate(names)}
        # one coefficient tensor may be shared by the whole batch (batch size 1, broadcast against the others - a
        # learned lowpass, say): its gradient is the sum over the batch
        shared = sub[case['k'] % len(sub)] if (N > 1 and case.get('shared_batch')) else None
        if shared is not None:
            pd[shared] = pd[shared][:1]
            r.label('coefficient_shared_by_batch')
        tsd = {k: torch.tensor(pd[k]).requires_grad_(k in sub) for k in names}
        y = core.libcall(inv, (tsd['low'], [tsd[j] for j in range(J)]))
        gv = core.make(case['rg'], y.shape)
        Gd = torch.autograd.grad(y, [tsd[k] for k in sub], torch.tensor(gv), allow_unused=True)
        for k, gk in zip(sub, Gd):
            if gk is None:
                r.fail('none_grad_dense', '%s received None on the (N,C) call' % (k,))
                continue
            wantd = np.einsum('nco,oi->nci', gv.reshape(N, C, -1), measured[k]).reshape((N, C) + shapes[k])
            if k == shared:
                wantd = wantd.sum(axis=0, keepdims=True)
                if tuple(gk.shape) != wantd.shape:
                    r.fail('shared_batch_grad_shape', 'gradient of the batch-shared %s has shape %s' % (k, tuple(gk.shape)))
                    continue
            told = core.TOL64 * max(g * core.maxabs(gv), core.maxabs(wantd), 1e-300)
            okc, err = core.close(gk.numpy(), wantd, told)
            if not okc:
                r.fail('synthesis_vjp_slices:dim%d' % dim, 'the (N,C) backward of %s is not the per-slice action of the '
                       'N=C=1 backward: %s' % (k, core.first_mismatch(gk.numpy(), wantd, told)))
    if case.get('overwrite') and not r.failed and not (d2c and out_may_raise):
        N, C = case['N'], case['C']
        pd = {k: core.make({**case['rx'], 'seed': case['rx']['seed'] + 7 + i}, (N, C) + shapes[k]) for i, k in enumerate(names)}
        tsd = {k: torch.tensor(pd[k]).requires_grad_(k in sub) for k in names}
        y = core.libcall(inv, (tsd['low'], [tsd[j] for j in range(J)]))
        dwtu.backward_after_overwrite(r, inv, [y], [tsd[k] for k in sub], [torch.tensor(core.make(case['rg'], y.shape))],
                                      'inverse DWT', pick=case['k'])
    return r


LEVEL_TEXT = ('Generated-input search: the matrix of the function computed in the forward pass is extracted without autograd and '
              'the hand-written backward passes of AFB1D/AFB2D/SFB1D/SFB2D (through the modules, multi-level) must return its '
              'transpose for basis and dense cotangents, for every generated subset of inputs requiring grad. Where the pinned '
              'code is known to be wrong (finding D2) the observed operator must coincide with an independently built model of '
              'that defect, so other regressions in the same modes are still caught.')
LEVEL_TEXT += (' Also generated: separate row/column wavelets, hand-made banks with odd tap counts (zero mode), a coefficient tensor shared by the batch, exact zeros, a second pull-back through the retained graph, filters overwritten in place between forward and backward (must be refused or harmless).')
LEVEL_NOTE = ('Float64; wavelets with filter length <= 20; sizes 1-D <= 64, 2-D <= 20x20; known findings KF-D2a/b/c and KF-D1 are '
              'classified by predicate AND by matching the modelled behaviour (D2).')
TECHNIQUE = 'property-based testing (Hypothesis), adjoint oracle: autograd VJP vs transposed forward matrix, modelled known defect'
