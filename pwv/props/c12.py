"""C12 - DTCWT options only re-arrange or select outputs; pyramids are
prefix-consistent."""
import numpy as np
import torch
from hypothesis import strategies as st

from pwv import core, dwtu, dtu
from pwv.core import Result, lib

ID = 'C12'
LAYOUTS = [(o, ri) for o in range(-6, 6) for ri in range(-6, 6) if o % 6 != ri % 6]
RULE = ('Hypothesis draws (filter pair, J in 1..4, H,W incl. odd / non-multiple-of-4, N, C, (o_dim, ri_dim) from all 132 '
        'integer pairs in -6..5 with different positions (30 layouts and their negative aliases), skip_hps mask, '
        'include_scale mask, level-1 padding mode (symmetric, or zero for 1/3 of the cases), dtype, content recipe). Oracles (bitwise unless stated): (a) moving the orientation and '
        'real/imag axes back gives the default-layout subbands, lowpass identical; (b) the inverse configured with the '
        'same pair on that layout equals the default inverse on the default layout and reconstructs x; (c) skipped '
        'levels are placeholders, everything else unchanged; (d) requested scales equal the lowpasses of the shorter '
        'transforms; (e) levels 1..j of the J-level transform equal the j-level transform; (f) axis tables agree with '
        'positions computed from first principles. Non-trivial = non-default layout or a non-trivial mask. Distinct = '
        'configuration without seeds.')
ASSUMPTIONS = ['CPU kernels are deterministic, so "only moved / unchanged" relations hold bitwise in practice; up to 64 ulp of the largest value is tolerated and counted (label ulp_diff_*), so that a legitimate re-ordering of floating-point operations between code paths is not an alarm',
               'reconstruction tolerance as C04']
STRATA = {'thorough': 'all 132 (o_dim, ri_dim) integer pairs (30 layouts + negative aliases) x J in 1..3', 'quick': ''}
LABEL_FLOORS = {'nondefault_layout': 0.5, 'some_skipped': 0.3, 'some_scales': 0.3}


def plan(tier):
    if tier == 'quick':
        return [{'n': 200} for _ in range(16)]
    units = [{'n': 60, 'o_dim': o, 'ri_dim': ri, 'J': J} for o, ri in LAYOUTS for J in (1, 2, 3)]
    units += [{'n': 4000} for _ in range(16)]
    return units


@st.composite
def _case(draw, unit):
    b, q = draw(dtu.pair_strategy())
    J = unit.get('J') or draw(st.sampled_from([1, 2, 2, 3, 3, 4]))
    if 'o_dim' in unit:
        o, ri = unit['o_dim'], unit['ri_dim']
    else:
        o, ri = draw(st.sampled_from(LAYOUTS + [(2, -1)] * 12))
    def mask():
        k = draw(st.sampled_from(['none', 'rand', 'rand', 'all', 'scalar_true']))
        if k == 'none':
            return [False] * J
        if k == 'all':
            return [True] * J
        if k == 'scalar_true':
            return True
        return [draw(st.booleans()) for _ in range(J)]
    return {'biort': b, 'qshift': q, 'J': J, 'size': [draw(dtu.size_strategy(24)), draw(dtu.size_strategy(24))],
            'N': draw(st.sampled_from([1, 2])), 'C': draw(st.sampled_from([1, 2, 3])),
            'o_dim': o, 'ri_dim': ri, 'skip': mask(), 'scales': mask(),
            'mode': draw(st.sampled_from(['symmetric', 'symmetric', 'symmetric', 'zero', 'zero', 'reflect', 'replicate', 'periodic', 'constant'])),
            'mask_container': draw(st.sampled_from(dtu.MASK_CONTAINERS)),
            'dtype': draw(st.sampled_from(['f64', 'f64', 'f32'])),
            'rx': draw(core.recipe_strategy())}


def strategy(unit):
    return _case(unit)


FUZZ_RUNS = 6000


def fuzz_case(fdp):
    """Decode a libFuzzer byte string into a case (coverage-guided secondary engine of the thorough tier)."""
    J = fdp.ConsumeIntInRange(1, 4)
    o, ri = LAYOUTS[fdp.ConsumeIntInRange(0, len(LAYOUTS) - 1)]

    def mask():
        k = fdp.ConsumeIntInRange(0, 3)
        if k == 0:
            return [False] * J
        if k == 1:
            return True
        bits = fdp.ConsumeIntInRange(0, 15)
        return [bool(bits >> j & 1) for j in range(J)]
    return {'biort': dtu.BIORTS[fdp.ConsumeIntInRange(0, 3)], 'qshift': dtu.QSHIFTS[fdp.ConsumeIntInRange(0, 5)], 'J': J,
            'size': [fdp.ConsumeIntInRange(2, 24), fdp.ConsumeIntInRange(2, 24)],
            'N': fdp.ConsumeIntInRange(1, 2), 'C': fdp.ConsumeIntInRange(1, 3), 'o_dim': o, 'ri_dim': ri,
            'skip': mask(), 'scales': mask(), 'mode': ['symmetric', 'symmetric', 'zero'][fdp.ConsumeIntInRange(0, 2)],
            'dtype': ['f64', 'f32'][fdp.ConsumeIntInRange(0, 1)],
            'rx': {'kind': core.RECIPE_KINDS[fdp.ConsumeIntInRange(0, len(core.RECIPE_KINDS) - 1)],
                   'seed': fdp.ConsumeIntInRange(0, 255), 'scale': [0, 0, 3, -3][fdp.ConsumeIntInRange(0, 3)]}}


def canon(t, o, ri):
    """Move the orientation axis to 2 and the real/imag axis to 5."""
    o %= 6
    ri %= 6
    rest = [d for d in range(6) if d not in (o, ri)]
    return t.permute(rest[0], rest[1], o, rest[2], rest[3], ri)


def is_placeholder(t):
    return isinstance(t, torch.Tensor) and (t.dim() == 0 or t.numel() == 0)


ULP_DIFFS = [0]


def same(a, b):
    """'Only moved / unchanged': bitwise in practice (identical arithmetic on both sides); a difference of a few
    units in the last place - which a legitimate re-ordering of floating-point operations between two code paths
    could cause - is counted, not failed. Real defects are >= 8 orders of magnitude above this."""
    if a.shape != b.shape or a.dtype != b.dtype:
        return False
    if torch.equal(a, b):
        return True
    if a.numel() == 0 or not (bool(torch.isfinite(a).all()) and bool(torch.isfinite(b).all())):
        return False
    eps = core.EPS32 if a.dtype == torch.float32 else core.EPS64
    scale = max(float(b.abs().max()), 1e-300)
    if float((a - b).abs().max()) <= 64 * eps * scale:
        ULP_DIFFS[0] += 1
        return True
    return False


def run_case(case):
    from pytorch_wavelets import DTCWTForward, DTCWTInverse
    r = Result()
    ULP_DIFFS[0] = 0
    b, q, J = case['biort'], case['qshift'], case['J']
    H, W = case['size']
    o, ri = case['o_dim'], case['ri_dim']
    tdt = dwtu.tdt(case['dtype'])
    f32 = case['dtype'] == 'f32'
    skip = [bool(case['skip'])] * J if isinstance(case['skip'], bool) else list(case['skip'])
    scl = [bool(case['scales'])] * J if isinstance(case['scales'], bool) else list(case['scales'])
    nondefault = (o % 6, ri % 6) != (2, 5)
    mode = case.get('mode', 'symmetric')
    r.label(*dtu.size_labels(H, W, J))
    r.label('mode_' + mode)
    r.label('nondefault_layout' if nondefault else None, 'negative_alias' if (o < 0 or ri < 0) else None,
            'some_skipped' if any(skip) else None, 'all_skipped' if all(skip) else None,
            'some_scales' if any(scl) else None, 'J>=2' if J >= 2 else None, case['dtype'],
            'layout_o%d_ri%d' % (o % 6, ri % 6))
    r.nontrivial = nondefault or (any(skip) and not all(skip)) or (any(scl) and not all(scl))
    x = torch.tensor(core.make(case['rx'], [case['N'], case['C'], H, W]), dtype=tdt)
    def boxed(m):
        return dtu.boxed_mask(m, case.get('mask_container', 'list'))
    r.label('masks_as_' + case.get('mask_container', 'list'))
    with dwtu.default_dtype(tdt):
        base = DTCWTForward(biort=b, qshift=q, J=J, mode=mode)
        fwd = DTCWTForward(biort=b, qshift=q, J=J, o_dim=o, ri_dim=ri, skip_hps=boxed(case['skip']),
                           include_scale=boxed(case['scales']), mode=mode)
        inv0 = DTCWTInverse(biort=b, qshift=q, mode=mode)
        inv = DTCWTInverse(biort=b, qshift=q, o_dim=o, ri_dim=ri, mode=mode)
    yl0, yh0 = core.libcall(base, x)
    ok, out = lib(fwd, x)
    if not ok:
        return r.fail(out.bucket, 'forward with options raised: %s' % out)
    yl, yh = out
    if len(yh) != J:
        return r.fail('structure', 'len(yh)=%d for J=%d' % (len(yh), J))
    # (d) requested scales
    if any(scl):
        if not isinstance(yl, (list, tuple)) or len(yl) != J:
            return r.fail('scales_structure', 'include_scale=%s should return a list of %d lowpasses' % (scl, J))
        for j in range(J):
            if scl[j]:
                with dwtu.default_dtype(tdt):
                    short = DTCWTForward(biort=b, qshift=q, J=j + 1, mode=mode)
                lj, _ = core.libcall(short, x)
                if not same(yl[j], lj):
                    r.fail('scale_values', 'requested scale %d differs from the lowpass of the %d-level transform' %
                           (j + 1, j + 1))
            elif not is_placeholder(yl[j]):
                r.fail('scale_placeholder', 'scale %d was not requested but is %s' % (j + 1, tuple(yl[j].shape)))
        low = yl[J - 1] if scl[J - 1] else None
    else:
        if not isinstance(yl, torch.Tensor):
            return r.fail('scales_structure', 'no scales requested but yl is %r' % type(yl))
        low = yl
    if low is not None and not same(low, yl0):
        r.fail('lowpass_changed', 'final lowpass changed by the options (layout %s, skip %s, scales %s)' % ((o, ri), skip, scl))
    # (a), (c) highpasses
    for j in range(J):
        if skip[j]:
            if not is_placeholder(yh[j]):
                r.fail('skip_placeholder', 'level %d skipped but returned shape %s' % (j + 1, tuple(yh[j].shape)))
            continue
        if yh[j].dim() != 6 or yh[j].shape[o % 6] != 6 or yh[j].shape[ri % 6] != 2:
            r.fail('layout_shape', 'level %d has shape %s for o_dim=%d ri_dim=%d' % (j + 1, tuple(yh[j].shape), o, ri))
            continue
        if not same(canon(yh[j], o, ri), yh0[j]):
            r.fail('layout_values:o%d_ri%d' % (o % 6, ri % 6),
                   'level %d: moving the axes back does not give the default-layout subbands' % (j + 1))
    # (f) the module is used again, on other data and then on x once more: the result for x is the same as the
    # first time, and what the first call returned (the list and its tensors) is left alone
    first_ids = [id(t) for t in yh]
    first_vals = [t.clone() for t in yh]
    ok, o2 = lib(fwd, x.flip(-1) * 0.5 + 1.0)
    ok3, o3 = lib(fwd, x)
    if not ok or not ok3:
        r.fail((o2 if not ok else o3).bucket, 'a later call of the same module raised: %s' % (o2 if not ok else o3))
    else:
        yl3, yh3 = o3
        if len(yh3) != len(first_vals) or any(tuple(a.shape) != tuple(b.shape) or not same(a, b) for a, b in zip(yh3, first_vals) if not is_placeholder(b)) \
                or any(is_placeholder(b) != is_placeholder(a) for a, b in zip(yh3, first_vals)):
            r.fail('later_call_differs', 'calling the same module again on the same input gives a different pyramid')
        if isinstance(yl, torch.Tensor) and isinstance(yl3, torch.Tensor) and not same(yl3, yl):
            r.fail('later_call_differs', 'calling the same module again on the same input gives a different lowpass')
        if [id(t) for t in yh] != first_ids or any(tuple(a.shape) != tuple(b.shape) or not torch.equal(a, b) for a, b in zip(yh, first_vals)):
            r.fail('returned_container_overwritten', 'the highpass list returned by the first call was modified by later calls')
    # (e) prefix consistency
    for j in range(1, J):
        with dwtu.default_dtype(tdt):
            short = DTCWTForward(biort=b, qshift=q, J=j, mode=mode)
        _, yhs = core.libcall(short, x)
        for i in range(j):
            if not same(yhs[i], yh0[i]):
                r.fail('prefix', 'level %d of the %d-level transform differs from the %d-level transform' % (i + 1, j, J))
    if ULP_DIFFS[0]:
        r.label('ulp_diff_forward')
    if r.failed:
        return r
    # (b) inverse accepts the layout
    yh_def = [yh0[j] if not skip[j] else yh0[j].new_zeros([]) for j in range(J)]
    want = core.libcall(inv0, (yl0, yh_def))
    ok, got = lib(inv, (yl0, list(yh)))
    if not ok:
        return r.fail('inverse_layout_raise:o%d_ri%d' % (o % 6, ri % 6),
                      'inverse configured with (o_dim=%d, ri_dim=%d) raised on the matching layout: %s' % (o, ri, got))
    if got.shape != want.shape:
        return r.fail('inverse_layout_shape:o%d_ri%d' % (o % 6, ri % 6), 'inverse output %s vs default %s' %
                      (tuple(got.shape), tuple(want.shape)))
    if not torch.equal(got, want):
        d = float((got - want).abs().max())
        scale = max(float(want.abs().max()), 1e-300)
        if d <= 64 * (core.EPS32 if f32 else core.EPS64) * scale:
            r.label('ulp_diff_inverse')
        else:
            r.fail('inverse_layout_values:o%d_ri%d' % (o % 6, ri % 6),
                   'inverse on layout (o_dim=%d, ri_dim=%d) differs from the default inverse by %.3g' % (o, ri, d))
    if not any(skip) and mode == 'symmetric':
        xs = max(float(x.abs().max()), 1e-300)
        tol = (256 * core.EPS32 * 2 ** J if f32 else 1e-9 + 8 * J * dtu.qshift_residual(q)) * xs
        d = float((got[..., :H, :W] - x).abs().max())
        if not d <= tol:
            r.fail('reconstruct', 'inverse(forward(x)) with layout (%d,%d) is off by %.3g' % (o, ri, d))
    # (f) axis tables from first principles (internal helpers; skipped if they are refactored away)
    try:
        from pytorch_wavelets.dtcwt.transform_funcs import get_dimensions5, get_dimensions6
    except ImportError:
        r.label('axis_tables_absent')
        return r
    try:
        get_dimensions5(2, -1)[3], get_dimensions6(2, -1)[3]
    except Exception:       # noqa: helpers refactored to another signature: nothing to compare
        r.label('axis_tables_absent')
        return r
    for oo, rr in LAYOUTS:
        o6, r6 = oo % 6, rr % 6
        rest = [d for d in range(6) if d not in (o6, r6)]
        h6, w6 = rest[2], rest[3]
        o5, h5, w5 = o6 - (r6 < o6), h6 - (r6 < h6), w6 - (r6 < w6)
        g5, g6 = get_dimensions5(oo, rr), get_dimensions6(oo, rr)
        if (g5[0], g5[2], g5[3]) != (o5, h5, w5) or g5[1] != r6:
            r.fail('axis_table5', 'get_dimensions5(%d,%d)=%s, first principles (o=%d, ri=%d, h=%d, w=%d)' %
                   (oo, rr, g5, o5, r6, h5, w5))
        if (g6[2], g6[3]) != (h6, w6):
            r.fail('axis_table6', 'get_dimensions6(%d,%d)=%s, first principles h=%d w=%d' % (oo, rr, g6, h6, w6))
    return r


LEVEL_TEXT = ('Generated-input search over all 132 (o_dim, ri_dim) integer pairs, skip and scale masks, filter pairs, J and '
              'sizes: the option-free transform is the reference and every option is checked to only move axes, drop '
              'levels or expose intermediate lowpasses, bit for bit; the inverse with the matching pair must accept the '
              'layout and agree with the default inverse; J-level and j-level pyramids must share their first j levels; '
              'the two internal axis tables are enumerated completely in every case.')
LEVEL_TEXT += (' Also generated: every accepted padding-mode name, mask containers, repeated calls of the same module (same pyramid again, earlier returned lists untouched); thorough tier adds two atheris campaigns.')
LEVEL_NOTE = ('Metamorphic relations against the library itself (its absolute correctness is C03/C04/C11); bitwise equality '
              'relies on deterministic CPU kernels (a difference of up to 64 ulp of the largest value is counted, not failed).')
TECHNIQUE = 'property-based testing (Hypothesis), metamorphic relations (axis permutation, masking, prefix) checked bitwise'
