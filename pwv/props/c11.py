"""C11 - DTCWT synthesis equals the reference inverse on arbitrary pyramids;
absent (None / 0-dim / empty) lowpass or highpass levels stand for zeros."""
import numpy as np
import torch
from hypothesis import strategies as st

from pwv import core, dwtu, dtu
from pwv.core import Result, lib
from pwv.props.c12 import LAYOUTS
from pwv.props.c06 import to_layout

ID = 'C11'
ABSENT = ['none', 'zerodim', 'empty']
RULE = ('Hypothesis draws (filter pair, J in 1..4, H,W with odd / non-multiple-of-4 emphasis, N, C, dtype, content '
        'recipes, and for the lowpass and each highpass level either "present" or one of the three documented '
        'spellings of absence: None, 0-dim tensor, torch.tensor([])). Pyramid shapes come from the size recursion '
        'written from first principles for (H,W,J), not from the forward transform. Oracle: '
        'dtcwt.numpy Transform2d.inverse on the same pyramid with zeros for absent parts: synthesis operator on basis '
        'pyramids (all columns when <= 128, else 64 generated columns) and dense pyramids. Non-trivial = J>=2 and '
        '(odd/pad-to-4 size or something absent). Distinct = configuration without seeds.')
ASSUMPTIONS = ['the NumPy dtcwt 0.14 inverse is the reference', 'tolerance 1e-11*max(1,gain*max|c|) float64, 64*eps32 float32']
STRATA = {'thorough': 'all 24 filter pairs x J in 1..4', 'quick': ''}
LABEL_FLOORS = {'something_absent': 0.4, 'pad4_rows': 0.15, 'pad4_cols': 0.15}


def plan(tier):
    if tier == 'quick':
        return [{'n': 60} for _ in range(8)]
    units = [{'n': 30, 'biort': b, 'qshift': q, 'J': J} for b, q in dtu.PAIRS for J in (1, 2, 3, 4)]
    units += [{'n': 400} for _ in range(16)]
    return units


@st.composite
def _case(draw, unit):
    b, q = (unit['biort'], unit['qshift']) if unit.get('biort') else draw(dtu.pair_strategy())
    J = unit.get('J') or draw(st.sampled_from([1, 2, 2, 3, 3, 4]))
    cap = 32 if draw(st.integers(0, 9)) < 3 else 14
    pres = st.sampled_from(['present', 'present', 'present'] + ABSENT)
    kind = draw(st.sampled_from(['all_present', 'mixed', 'mixed', 'one_absent']))
    if kind == 'all_present':
        low, his = 'present', ['present'] * J
    elif kind == 'one_absent':
        i = draw(st.integers(-1, J - 1))
        a = draw(st.sampled_from(ABSENT))
        low = a if i == -1 else 'present'
        his = [a if j == i else 'present' for j in range(J)]
    else:
        low = draw(pres)
        his = [draw(pres) for _ in range(J)]
    if low != 'present' and all(h != 'present' for h in his):
        his[draw(st.integers(0, J - 1))] = 'present'      # something must be there
    size = [draw(dtu.size_strategy(cap)), draw(dtu.size_strategy(cap))]
    if his[0] != 'present' and draw(st.integers(0, 99)) >= 20 and \
            ambiguous({'size': size, 'J': J, 'highs': his}):
        his[0] = 'present'      # keep most cases outside the undecidable finding
    return {'biort': b, 'qshift': q, 'J': J,
            'size': size,
            'N': draw(st.sampled_from([1, 1, 2])), 'C': draw(st.sampled_from([1, 2, 3])),
            'dtype': draw(st.sampled_from(['f64', 'f64', 'f64', 'f32'])),
            'low': low, 'highs': his, 'zero_valued': [int(draw(st.integers(0, 3)) == 0) for _ in range(J + 1)],
            'reused': draw(st.integers(0, 2)) == 0, 'later_sibling': draw(st.integers(0, 2)) == 0,
            'layout': list(draw(st.sampled_from(LAYOUTS))) if draw(st.integers(0, 2)) == 0 else [2, -1], 'filt_form': draw(st.sampled_from(['names', 'names', 'names', 'tuples'])),
            'ctx': draw(st.sampled_from(core.GRAD_CTXS)), 'other_precision_first': draw(st.integers(0, 3)) == 0,
            'rx': draw(core.recipe_strategy()), 'rp': draw(core.recipe_strategy()),
            'k': draw(st.integers(0, 10**6))}


def strategy(unit):
    return _case(unit)


FUZZ_RUNS = 1500


def fuzz_case(fdp):
    """Decode a libFuzzer byte string into a case (coverage-guided secondary engine of the thorough tier)."""
    J = fdp.ConsumeIntInRange(1, 4)
    kinds = ['present', 'present'] + ABSENT
    low = kinds[fdp.ConsumeIntInRange(0, 4)]
    his = [kinds[fdp.ConsumeIntInRange(0, 4)] for _ in range(J)]
    if low != 'present' and all(h != 'present' for h in his):
        his[fdp.ConsumeIntInRange(0, J - 1)] = 'present'
    rec = lambda: {'kind': core.RECIPE_KINDS[fdp.ConsumeIntInRange(0, len(core.RECIPE_KINDS) - 1)],   # noqa
                   'seed': fdp.ConsumeIntInRange(0, 255), 'scale': [0, 0, 3, -3][fdp.ConsumeIntInRange(0, 3)]}
    return {'biort': dtu.BIORTS[fdp.ConsumeIntInRange(0, 3)], 'qshift': dtu.QSHIFTS[fdp.ConsumeIntInRange(0, 5)], 'J': J,
            'size': [fdp.ConsumeIntInRange(2, 20), fdp.ConsumeIntInRange(2, 20)],
            'N': fdp.ConsumeIntInRange(1, 2), 'C': fdp.ConsumeIntInRange(1, 2),
            'dtype': ['f64', 'f32'][fdp.ConsumeIntInRange(0, 1)], 'low': low, 'highs': his,
            'filt_form': ['names', 'tuples'][fdp.ConsumeIntInRange(0, 1)], 'rx': rec(), 'rp': rec(),
            'k': fdp.ConsumeIntInRange(0, 10**6)}


def ambiguous(case):
    """KF-D9-ambiguous: some level t>=1 whose input lowpass had been padded to a
    multiple of 4 in the forward pyramid, with every finer level absent: the
    inverse cannot know that two rows/columns have to be dropped again."""
    H, W = case['size']
    _, _, pads = dtu.pyramid_shapes(H, W, case['J'])
    ab = [h != 'present' for h in case['highs']]
    return any((pads[t][0] or pads[t][1]) and all(ab[:t]) for t in range(1, case['J']))


def _absent(kind, tdt):
    if kind == 'none':
        return None
    if kind == 'zerodim':
        return torch.zeros([], dtype=tdt)
    return torch.tensor([], dtype=tdt)


def run_case(case):
    with core.grad_ctx(case.get('ctx')):
        r = _run_case(case)
    return r.label('ctx_' + case['ctx']) if case.get('ctx', 'default') != 'default' else r


def _run_case(case):
    from pytorch_wavelets import DTCWTInverse
    r = Result()
    b, q, J = case['biort'], case['qshift'], case['J']
    H, W = case['size']
    f32 = case['dtype'] == 'f32'
    tdt = dwtu.tdt(case['dtype'])
    lo_shape, hs, pads = dtu.pyramid_shapes(H, W, J)
    hi_shapes = [(6, h, w, 2) for h, w in hs]
    amb = ambiguous(case)
    some_absent = case['low'] != 'present' or any(h != 'present' for h in case['highs'])
    labs = dtu.size_labels(H, W, J)
    r.label(*labs)
    r.label('J>=2' if J >= 2 else None, case['dtype'], 'something_absent' if some_absent else None,
            'filters_as_' + case.get('filt_form', 'names'),
            'low_absent' if case['low'] != 'present' else None,
            *['absent_as_' + k for k in set([case['low']] + case['highs']) if k != 'present'],
            'absent_with_finer_present' if any(
                case['highs'][t] != 'present' and any(h == 'present' for h in case['highs'][:t])
                for t in range(1, J)) else None,
            'ambiguous_absent' if amb else None)
    r.nontrivial = J >= 2 and (bool(labs) or some_absent)
    o_, ri_ = case.get('layout', [2, -1])
    r.label('nondefault_layout' if (o_ % 6, ri_ % 6) != (2, 5) else None)

    def lay(t):
        return to_layout(t, o_, ri_)
    with dwtu.default_dtype(tdt):
        ib, iq = dtu.filt_args(b, q, case.get('filt_form', 'names'), inverse=True)
        twin = {'qshift_06': 'qshift_a', 'qshift_a': 'qshift_06'}.get(q)
        if case.get('reused') and twin:
            # the module had a previous life with the other 10-tap q-shift set (load_state_dict in between)
            r.label('reused_module')
            inv = DTCWTInverse(biort=b, qshift=twin, o_dim=o_, ri_dim=ri_)
            inv((torch.ones(1, 1, 8, 8, dtype=tdt), [lay(torch.ones(1, 1, 6, 8, 8, 2, dtype=tdt)), lay(torch.ones(1, 1, 6, 4, 4, 2, dtype=tdt))]))
            fresh = DTCWTInverse(biort=ib, qshift=iq, o_dim=o_, ri_dim=ri_)
            try:
                inv.load_state_dict(fresh.state_dict())
            except RuntimeError:
                inv = fresh
        else:
            inv = DTCWTInverse(biort=ib, qshift=iq, o_dim=o_, ri_dim=ri_)
    if case.get('later_sibling'):
        # another inverse with a different filter pair is constructed (and used once) between construction and use
        r.label('sibling_constructed_later')
        ob, oq = dtu.other_pair(b, q)
        with dwtu.default_dtype(tdt), torch.inference_mode(False):
            core.libcall(lambda: DTCWTInverse(biort=ob, qshift=oq, o_dim=o_, ri_dim=ri_)(
                (torch.ones(1, 1, 8, 8, dtype=tdt), [lay(torch.ones(1, 1, 6, 8, 8, 2, dtype=tdt)), lay(torch.ones(1, 1, 6, 4, 4, 2, dtype=tdt))])))
    if case.get('other_precision_first'):
        r.label('after_other_precision_call')
        dwtu.other_precision_call(inv, None, tdt, lambda dt: (
            torch.ones(1, 1, 8, 8, dtype=dt), [lay(torch.ones(1, 1, 6, 4, 4, 2, dtype=dt))]))
    total = dwtu.pyr_total(lo_shape, hi_shapes)
    He, We = H + H % 2, W + W % 2

    # ---- 1. synthesis operator on basis pyramids, everything present
    M, full = dwtu.basis_rows(total, case['k'], cap=128, sub=64)
    r.label('full_operator' if full else 'operator_column_subset')
    yl, yh = dwtu.split_flat(M, lo_shape, hi_shapes)
    want = np.stack([dtu.ref_inverse(yl[i], [h[i] for h in yh], b, q) for i in range(M.shape[0])])
    ok, out = lib(inv, (torch.tensor(yl[:, None], dtype=tdt), [lay(torch.tensor(h[:, None], dtype=tdt)) for h in yh]))
    if not ok:
        return r.fail(out.bucket, 'inverse raised on a forward-compatible pyramid: %s' % out)
    g = max(1.0, float(np.abs(want).reshape(want.shape[0], -1).sum(0).max())) if full else 4.0 ** J
    if tuple(out.shape) != (M.shape[0], 1, He, We) or want.shape[1:] != (He, We):
        r.fail('shape', 'output %s, reference %s, expected extent %s' % (tuple(out.shape), want.shape, (He, We)))
    else:
        tol = (64 * core.EPS32 if f32 else core.TOL64) * g
        okc, err = core.close(dwtu.to_np(out)[:, 0], want, tol)
        r.metric('operator_abs_err_' + case['dtype'], err)
        if not okc:
            r.fail('operator', 'synthesis operator differs from the reference: ' +
                   core.first_mismatch(dwtu.to_np(out)[:, 0], want, tol))

    # ---- 2. dense pyramid with absent parts
    N, C = case['N'], case['C']
    dl = core.make(case['rx'], (N, C) + tuple(lo_shape))
    dh = [core.make({**case['rp'], 'seed': case['rp']['seed'] + j}, (N, C) + s) for j, s in enumerate(hi_shapes)]
    if f32:
        dl = dl.astype(np.float32).astype(np.float64)
        dh = [h.astype(np.float32).astype(np.float64) for h in dh]
    zv = case.get('zero_valued', [0] * (J + 1))
    if zv[0]:
        dl = np.zeros_like(dl)
    dh = [np.zeros_like(h) if zv[j + 1] else h for j, h in enumerate(dh)]
    r.label('explicit_zero_part' if (zv[0] and case['low'] == 'present') or any(
        z and k == 'present' for z, k in zip(zv[1:], case['highs'])) else None)
    zl = dl if case['low'] == 'present' else np.zeros_like(dl)
    zh = [h if k == 'present' else np.zeros_like(h) for h, k in zip(dh, case['highs'])]
    want = np.stack([dtu.ref_inverse(zl[n, c], [h[n, c] for h in zh], b, q)
                     for n in range(N) for c in range(C)]).reshape(N, C, He, We)
    tl = torch.tensor(dl, dtype=tdt) if case['low'] == 'present' else _absent(case['low'], tdt)
    th = [lay(torch.tensor(h, dtype=tdt)) if k == 'present' else _absent(k, tdt) for h, k in zip(dh, case['highs'])]
    snap = list(th)
    copies = [None if t is None else t.clone() for t in [tl] + th]
    ok, out = lib(inv, (tl, th))
    if ok and any(c_ is not None and not torch.equal(t_, c_) for t_, c_ in zip([tl] + snap, copies)):
        r.fail('mutated_argument', 'a coefficient tensor passed in was modified by the inverse')

    def mismatch(what, msg):
        if amb and core.kf_open('KF-D9-ambiguous', ID):
            r.known('KF-D9-ambiguous', msg)
        else:
            r.fail(what, msg)
    if not ok:
        mismatch('raise_absent:' + out.bucket if some_absent else out.bucket,
                 'inverse raised (low=%s highs=%s): %s' % (case['low'], case['highs'], out))
        return r
    if len(th) != len(snap) or any(a is not b_ for a, b_ in zip(th, snap)):
        r.fail('mutated_list', 'the highpass list passed in was modified')
    if not isinstance(out, torch.Tensor):
        return r.fail('no_tensor', 'inverse returned %r' % type(out))
    if out.dtype != tdt:
        r.fail('dtype', 'output dtype %s for %s coefficients' % (out.dtype, tdt))
    cmax = max([core.maxabs(zl)] + [core.maxabs(h) for h in zh])
    tol = (64 * core.EPS32 if f32 else core.TOL64) * max(g * cmax, 1e-300)
    if tuple(out.shape) != want.shape:
        mismatch('shape_absent' if some_absent else 'shape_dense',
                 'output shape %s, zeros-equivalent reference %s (low=%s highs=%s)' %
                 (tuple(out.shape), want.shape, case['low'], case['highs']))
        return r
    okc, err = core.close(dwtu.to_np(out), want, tol)
    r.metric('dense_rel_err_' + case['dtype'], err / max(g * cmax, 1e-300))
    if not okc:
        mismatch('values_absent' if some_absent else 'values_dense',
                 'differs from the reference with zeros for absent parts (low=%s highs=%s): %s' %
                 (case['low'], case['highs'], core.first_mismatch(dwtu.to_np(out), want, tol)))
    return r


LEVEL_TEXT = ('Generated-input search: the synthesis operator of DTCWTInverse is extracted from basis pyramids of '
              'forward-compatible shapes (from first principles, not forward outputs) and compared with the reference '
              'inverse; dense pyramids with generated absence patterns (None / 0-dim / empty tensor, lowpass and any '
              'levels) are compared with the reference fed explicit zeros, shape and dtype included.')
LEVEL_TEXT += (' Also generated: output layouts, filters as arrays, modules with a past (load_state_dict, other-precision call), autograd contexts; thorough tier adds two coverage-guided atheris campaigns on the same oracle.')
LEVEL_TEXT += (' Round 10: a sibling inverse with another filter pair constructed and used between construction and use.')
LEVEL_NOTE = ('Trusts dtcwt 0.14; sampled sizes <= 32x32, J <= 4; open finding KF-D9-ambiguous (absent level with no finer '
              'level present after a pad-to-4) is classified by predicate; relies on the fix: commit for DTCWTInverse.')
TECHNIQUE = 'property-based testing (Hypothesis), differential oracle NumPy dtcwt inverse on extracted synthesis operators'
