"""C06 - DTCWT back-propagation is the exact adjoint."""
import numpy as np
import torch
from hypothesis import strategies as st

from pwv import core, dwtu, dtu
from pwv.core import Result, lib
from pwv.props.c12 import LAYOUTS, canon, is_placeholder

ID = 'C06'
RULE = ('Hypothesis draws (direction forward/inverse, filter pair, J in 1..3, H,W in 2..14 incl. odd / non-multiple-of-4, '
        '(o_dim, ri_dim) from all 132 integer pairs, skip_hps mask and include_scale mask in a generated container - list / tuple / bool ndarray / list of 0-1 integers - (forward), absence mask and the '
        'subset of {lowpass, level 1..J} that requires grad (inverse), cotangent recipes; for a quarter of the cases the filters of the module are overwritten in place between the forward pass and a pull-back through the recorded graph, which must be refused or unchanged). Oracle: the matrix J_f of the '
        'function computed by the forward pass, extracted from basis inputs under no_grad; torch.autograd.grad with basis '
        'cotangents (batch-slot trick: K copies of the input in the batch axis, cotangent k in slot k) must give J_f^T, for '
        'every input in the subset (never None); two unbatched N=1 VJPs with dense cotangents cross-check the batching. '
        'Non-trivial = non-default layout or a mask or a proper grad subset or J>=2. Distinct = configuration without seeds.')
ASSUMPTIONS = ['the forward pass itself (no hand-written backward involved) defines the function whose adjoint is demanded',
               'tolerance 1e-11*max(1,gain) float64']
STRATA = {'thorough': 'all 24 filter pairs x both directions; all 132 layout pairs x both directions', 'quick': ''}
LABEL_FLOORS = {'inverse': 0.35, 'forward': 0.35, 'nondefault_layout': 0.4}


def plan(tier):
    if tier == 'quick':
        return [{'n': 150} for _ in range(16)]
    units = [{'n': 40, 'biort': b, 'qshift': q, 'direction': d} for b, q in dtu.PAIRS for d in ('forward', 'inverse')]
    units += [{'n': 25, 'o_dim': o, 'ri_dim': ri, 'direction': d} for o, ri in LAYOUTS for d in ('forward', 'inverse')]
    units += [{'n': 2500} for _ in range(16)]
    return units


@st.composite
def _case(draw, unit):
    b, q = (unit['biort'], unit['qshift']) if unit.get('biort') else draw(dtu.pair_strategy())
    J = draw(st.sampled_from([1, 2, 2, 3]))
    if 'o_dim' in unit:
        o, ri = unit['o_dim'], unit['ri_dim']
    else:
        o, ri = draw(st.sampled_from(LAYOUTS + [(2, -1)] * 40))
    direction = unit.get('direction') or draw(st.sampled_from(['forward', 'inverse']))
    def mask(p_none=2):
        k = draw(st.sampled_from(['none'] * p_none + ['rand', 'rand', 'all']))
        if k == 'none':
            return [False] * J
        if k == 'all':
            return [True] * J
        return [draw(st.booleans()) for _ in range(J)]
    case = {'direction': direction, 'biort': b, 'qshift': q, 'J': J,
            'size': [draw(st.integers(2, 14)), draw(st.integers(2, 14))],
            'o_dim': o, 'ri_dim': ri, 'mode': draw(st.sampled_from(['symmetric', 'symmetric', 'symmetric', 'zero', 'zero', 'reflect', 'replicate', 'periodic', 'constant'])),   # every mode name the constructors accept
            'reused': draw(st.integers(0, 2)) == 0, 'overwrite': draw(st.integers(0, 3)) == 0,
            'rx': draw(core.recipe_strategy()), 'rg': draw(core.recipe_strategy(kinds=core.RECIPE_KINDS + ['contrast'])),
            'k': draw(st.integers(0, 10**6))}
    if direction == 'forward':
        case['skip'] = mask()
        case['scales'] = mask()
        case['mask_container'] = draw(st.sampled_from(dtu.MASK_CONTAINERS))
        case['zero_input'] = draw(st.integers(0, 5)) == 0
    else:
        ab = mask(3)
        low_absent = draw(st.integers(0, 9)) == 0
        if all(ab):
            ab[draw(st.integers(0, J - 1))] = False
        case['absent'] = ab
        case['low_absent'] = low_absent
        present = ([] if low_absent else ['low']) + [j for j in range(J) if not ab[j]]
        k = draw(st.sampled_from(['all', 'all', 'one', 'rand']))
        if k == 'all':
            sub = list(present)
        elif k == 'one':
            sub = [present[draw(st.integers(0, len(present) - 1))]]
        else:
            sub = [p for p in present if draw(st.booleans())] or [present[0]]
        case['grad'] = sub
        # some present levels hold exact zeros (zero-initialised coefficients, thresholded bands): the Jacobian does
        # not depend on the values, so they must get the same gradient
        case['zero_valued'] = [p_ for p_ in present if draw(st.integers(0, 3)) == 0]
    return case


def strategy(unit):
    return _case(unit)


def to_layout(t, o, ri):
    """Default layout (n,c,6,h,w,2) -> the layout with the orientation axis at o
    and the real/imag axis at ri."""
    o %= 6
    ri %= 6
    rest = [d for d in range(6) if d not in (o, ri)]
    p = [rest[0], rest[1], o, rest[2], rest[3], ri]
    return t.permute(*np.argsort(p).tolist()).contiguous()


def run_case(case):
    r = Result()
    o, ri = case['o_dim'], case['ri_dim']
    J = case['J']
    H, W = case['size']
    nondefault = (o % 6, ri % 6) != (2, 5)
    r.label(case['direction'], 'mode_' + case.get('mode', 'symmetric'), 'nondefault_layout' if nondefault else None, 'J>=2' if J >= 2 else None,
            *dtu.size_labels(H, W, J))
    with dwtu.default_dtype(torch.float64):
        if case['direction'] == 'forward':
            return _forward(case, r, nondefault)
        return _inverse(case, r, nondefault)


def _outs(out, skip, scl, o=2, ri=5):
    """All differentiable tensors a forward call returned, in a fixed order
    (highpasses moved back to the default layout so that axis 0 is the batch)."""
    yl, yh = out
    yh = [t if is_placeholder(t) else canon(t, o, ri) for t in yh]
    ts = []
    if isinstance(yl, (list, tuple)):
        ts += [t for t in yl if not is_placeholder(t)]
    else:
        ts.append(yl)
    ts += [t for t in yh if not is_placeholder(t)]
    return ts


def _flat(ts):
    return torch.cat([t.reshape(t.shape[0], -1) for t in ts], dim=1)


def _forward(case, r, nondefault):
    from pytorch_wavelets import DTCWTForward
    J = case['J']
    H, W = case['size']
    skip, scl = case['skip'], case['scales']
    r.label('some_skipped' if any(skip) else None, 'some_scales' if any(scl) else None,
            'masks_as_' + case.get('mask_container', 'list'))
    r.nontrivial = nondefault or any(skip) or any(scl) or J >= 2
    def mk(q_):
        return DTCWTForward(biort=case['biort'], qshift=q_, J=J, o_dim=case['o_dim'], ri_dim=case['ri_dim'],
                            skip_hps=dtu.boxed_mask(list(skip), case.get('mask_container', 'list')),
                            include_scale=dtu.boxed_mask(list(scl), case.get('mask_container', 'list')),
                            mode=case.get('mode', 'symmetric'))
    twin = {'qshift_06': 'qshift_a', 'qshift_a': 'qshift_06'}.get(case['qshift'])
    if case.get('reused') and twin:
        r.label('reused_module')
        fwd = mk(twin)
        xw = torch.ones(1, 1, 8, 8, requires_grad=True)
        # ordinary use of the library (an exception here - e.g. outputs cut off from the graph - is the library's)
        core.libcall(lambda: sum(t.sum() for t in _outs(fwd(xw), skip, scl, case['o_dim'], case['ri_dim'])).backward())
        fresh = mk(case['qshift'])
        try:
            fwd.load_state_dict(fresh.state_dict())
        except RuntimeError:
            fwd = fresh
    else:
        fwd = mk(case['qshift'])
    n_in = H * W
    with torch.no_grad():
        A = _flat(_outs(core.libcall(fwd, torch.tensor(dwtu.basis([H, W])[:, None])), skip, scl, case['o_dim'], case['ri_dim'])).numpy()  # (n_in,total)
    total = A.shape[1]
    g = core.gain(A)
    tol = core.TOL64 * max(1.0, g)
    C, full = dwtu.basis_rows(total, case['k'], cap=640, sub=64)        # cotangents (K,total)
    r.label('full_jacobian' if full else 'jacobian_row_subset')
    K = C.shape[0]
    x0 = core.make(case['rx'], [1, 1, H, W])
    if case.get('zero_input'):
        x0 = np.zeros_like(x0)
        r.label('zero_valued_input')
    X = torch.tensor(np.repeat(x0, K, axis=0), requires_grad=True)
    F = _flat(_outs(core.libcall(fwd, X), skip, scl, case['o_dim'], case['ri_dim']))
    if F.shape != (K, total):
        return r.fail('shape_changes_with_grad', 'outputs with autograd recording have %s values, without %s' %
                      (F.shape[1], total))
    ct = torch.tensor(C)
    ok, G = lib(torch.autograd.grad, F, X, ct, allow_unused=True, retain_graph=True)
    if not ok:
        return r.fail('backward_raise:' + G.bucket, 'backward raised: %s' % G)
    if not torch.equal(ct, torch.tensor(C)):
        return r.fail('cotangent_mutated', 'the backward pass modified the cotangent tensor it was given')
    ok, Gb = lib(torch.autograd.grad, F, X, -2.0 * ct, allow_unused=True)
    if not ok:
        return r.fail('second_backward_raise:' + Gb.bucket, 'a second backward pass through the same graph raised: %s' % Gb)
    if G[0] is not None and (Gb[0] is None or float((Gb[0] + 2.0 * G[0]).abs().max()) > core.TOL64 * max(float(G[0].abs().max()), 1e-300)):
        return r.fail('second_backward_differs', 'pulling back -2g through the same graph is not -2 x the pull-back of g')
    if G[0] is None:
        return r.fail('none_grad', 'input received no gradient')
    got = G[0].detach().numpy().reshape(K, n_in)
    want = C @ A.T
    okc, err = core.close(got, want, tol)
    r.metric('vjp_abs_err', err)
    if not okc:
        r.fail('forward_vjp' + (':layout' if nondefault else '') + (':skip' if any(skip) else '') +
               (':scales' if any(scl) else ''),
               'backward of DTCWTForward is not J^T g: ' + core.first_mismatch(got, want, tol))
    # unbatched spot check with a dense cotangent
    x1 = torch.tensor(x0, requires_grad=True)
    F1 = _flat(_outs(core.libcall(fwd, x1), skip, scl, case['o_dim'], case['ri_dim']))
    gv = core.make(case['rg'], [1, total])
    G1, = torch.autograd.grad(F1, x1, torch.tensor(gv))
    want1 = (gv @ A.T).reshape(-1)
    tol1 = core.TOL64 * max(g * core.maxabs(gv), 1e-300)
    okc, err = core.close(G1.numpy().reshape(-1), want1, tol1)
    if not okc:
        r.fail('forward_vjp_unbatched', 'N=1 backward is not J^T g: ' + core.first_mismatch(G1.numpy().reshape(-1), want1, tol1))
    if case.get('overwrite') and not r.failed:
        # the filters are overwritten in place between the forward pass and a pull-back through its recorded graph
        x2 = torch.tensor(x0, requires_grad=True)
        F2 = _flat(_outs(core.libcall(fwd, x2), skip, scl, case['o_dim'], case['ri_dim']))
        dwtu.backward_after_overwrite(r, fwd, [F2], [x2], [torch.tensor(gv)], 'DTCWTForward', pick=case['k'])
    return r


def _inverse(case, r, nondefault):
    from pytorch_wavelets import DTCWTInverse
    J = case['J']
    H, W = case['size']
    o, ri = case['o_dim'], case['ri_dim']
    ab, low_absent, sub = case['absent'], case['low_absent'], case['grad']
    present = ([] if low_absent else ['low']) + [j for j in range(J) if not ab[j]]
    r.label('some_absent' if (any(ab) or low_absent) else None,
            'proper_grad_subset' if len(sub) < len(present) else None,
            'low_without_grad' if ('low' in present and 'low' not in sub) else None)
    r.nontrivial = nondefault or any(ab) or len(sub) < len(present) or J >= 2
    def mk(q_):
        return DTCWTInverse(biort=case['biort'], qshift=q_, o_dim=o, ri_dim=ri, mode=case.get('mode', 'symmetric'))
    twin = {'qshift_06': 'qshift_a', 'qshift_a': 'qshift_06'}.get(case['qshift'])
    if case.get('reused') and twin:
        r.label('reused_module')
        inv = mk(twin)
        lw = torch.ones(1, 1, 8, 8, requires_grad=True)
        hw = [to_layout(torch.ones(1, 1, 6, 8, 8, 2), o, ri).requires_grad_(True),
              to_layout(torch.ones(1, 1, 6, 4, 4, 2), o, ri).requires_grad_(True)]
        core.libcall(lambda: inv((lw, hw)).sum().backward())
        fresh = mk(case['qshift'])
        try:
            inv.load_state_dict(fresh.state_dict())
        except RuntimeError:
            inv = fresh
    else:
        inv = mk(case['qshift'])
    lo_shape, hs, _ = dtu.pyramid_shapes(H, W, J)
    shapes = {'low': tuple(lo_shape)}
    for j in range(J):
        shapes[j] = (6,) + tuple(hs[j]) + (2,)
    sizes = {k: int(np.prod(shapes[k])) for k in present}

    def build(arrs, req):
        """arrs: dict name -> (K,*shape) numpy; returns (low, highs, tensors)"""
        ts = {}
        for k in present:
            t = torch.tensor(arrs[k][:, None])
            if k != 'low':
                t = to_layout(t, o, ri)
            ts[k] = t.requires_grad_(k in req)
        low = ts.get('low')
        highs = [ts[j] if j in ts else None for j in range(J)]
        return low, highs, ts

    # forward function as a matrix, no autograd
    total = sum(sizes.values())
    offs, o_ = {}, 0
    for k in present:
        offs[k] = o_
        o_ += sizes[k]
    with torch.no_grad():
        I = np.eye(total)
        arrs = {k: I[:, offs[k]:offs[k] + sizes[k]].reshape((total,) + shapes[k]) for k in present}
        low, highs, _ = build(arrs, [])
        out = core.libcall(inv, (low, highs))
        S = out.reshape(total, -1).numpy()                 # row i = S e_i   (total, n_out)
        out_shape = tuple(out.shape[2:])
    n_out = S.shape[1]
    g = core.gain(S.T)
    tol = core.TOL64 * max(1.0, g)
    Cg, full = dwtu.basis_rows(n_out, case['k'], cap=640, sub=64)
    r.label('full_jacobian' if full else 'jacobian_row_subset')
    K = Cg.shape[0]
    p0 = {k: core.make({**case['rx'], 'seed': case['rx']['seed'] + i}, (1,) + shapes[k])
          for i, k in enumerate(present)}
    for k in case.get('zero_valued', []):
        if k in p0:
            p0[k] = np.zeros_like(p0[k])
    r.label('zero_valued_level' if any(k in p0 for k in case.get('zero_valued', [])) else None)
    arrs = {k: np.repeat(p0[k], K, axis=0) for k in present}
    low, highs, ts = build(arrs, sub)
    snap = list(highs)
    y = core.libcall(inv, (low, highs))
    if tuple(y.shape[2:]) != out_shape:
        return r.fail('shape_changes_with_grad', 'output %s with autograd, %s without' % (tuple(y.shape), out_shape))
    if any(a is not b for a, b in zip(highs, snap)):
        r.fail('mutated_list', 'highpass list modified by the call')
    ct = torch.tensor(Cg)
    ok, G = lib(torch.autograd.grad, y.reshape(K, -1), [ts[k] for k in sub], ct, allow_unused=True, retain_graph=True)
    if ok:
        if not torch.equal(ct, torch.tensor(Cg)):
            return r.fail('cotangent_mutated', 'the backward pass modified the cotangent tensor it was given')
        ok2, Gb = lib(torch.autograd.grad, y.reshape(K, -1), [ts[k] for k in sub], -2.0 * ct, allow_unused=True)
        if not ok2:
            return r.fail('second_backward_raise:' + Gb.bucket, 'a second backward pass through the same graph raised: %s' % Gb)
        for g1_, g2_ in zip(G, Gb):
            if g1_ is not None and (g2_ is None or float((g2_ + 2.0 * g1_).abs().max()) > core.TOL64 * max(float(g1_.abs().max()), 1e-300)):
                return r.fail('second_backward_differs', 'pulling back -2g through the same graph is not -2 x the pull-back of g')
    if not ok:
        return r.fail('backward_raise:' + G.bucket, 'backward raised (subset %s): %s' % (sub, G))
    for k, gk in zip(sub, G):
        what = 'low' if k == 'low' else 'high'
        if gk is None:
            r.fail('none_grad:%s' % what, '%s requires grad but received None (subset %s of %s)' % (k, sub, present))
            continue
        if k != 'low':
            gk = canon(gk, o, ri)
        got = gk.detach().numpy().reshape(K, -1)
        want = Cg @ S[offs[k]:offs[k] + sizes[k], :].T
        okc, err = core.close(got, want, tol)
        r.metric('vjp_abs_err', err)
        if not okc:
            r.fail('inverse_vjp:%s' % what + (':layout' if nondefault else '') +
                   (':subset' if len(sub) < len(present) else ''),
                   'gradient of %s is not S^T g (subset %s): %s' % (k, sub, core.first_mismatch(got, want, tol)))
    # unbatched dense cotangent
    low, highs, ts = build(p0, sub)
    y = core.libcall(inv, (low, highs))
    gv = core.make(case['rg'], [1, n_out])
    G = torch.autograd.grad(y.reshape(1, -1), [ts[k] for k in sub], torch.tensor(gv), allow_unused=True)
    for k, gk in zip(sub, G):
        if gk is None:
            r.fail('none_grad_unbatched', '%s received None' % (k,))
            continue
        if k != 'low':
            gk = canon(gk, o, ri)
        want = (gv @ S[offs[k]:offs[k] + sizes[k], :].T).reshape(-1)
        tol1 = core.TOL64 * max(g * core.maxabs(gv), 1e-300)
        okc, err = core.close(gk.numpy().reshape(-1), want, tol1)
        if not okc:
            r.fail('inverse_vjp_unbatched', 'N=1 gradient of %s is not S^T g: %s' % (
                k, core.first_mismatch(gk.numpy().reshape(-1), want, tol1)))
    if case.get('overwrite') and not r.failed:
        low, highs, ts = build(p0, sub)
        y = core.libcall(inv, (low, highs))
        dwtu.backward_after_overwrite(r, inv, [y.reshape(1, -1)], [ts[k] for k in sub], [torch.tensor(gv)], 'DTCWTInverse', pick=case['k'])
    return r


LEVEL_TEXT = ('Generated-input search: for each generated configuration (filter pair, J, size, layout, masks, grad subset) '
              'the matrix of the function computed in the forward pass is extracted without autograd, and the hand-written '
              'backward passes are required to produce its exact transpose for basis cotangents (whole Jacobian when <= 640 '
              'rows) and dense cotangents, with no None gradients for members of the subset.')
LEVEL_TEXT += (' Also generated: every padding-mode name the constructors accept, masks as list / tuple / ndarray / 0-1 integers, modules with a past, filters overwritten in place between forward and backward.')
LEVEL_NOTE = ('Float64, sizes <= 14x14, J <= 3; the oracle is the library forward itself, so C06 is independent of C03/C11; '
              'relies on linearity (the Jacobian does not depend on the input), which C07 checks.')
TECHNIQUE = 'property-based testing (Hypothesis), adjoint oracle: autograd VJP vs transposed forward matrix'
