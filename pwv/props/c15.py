"""C15 - calls are pure: no argument mutation, no dependence on call history
or threads."""
import hashlib
import json
import os
import subprocess
import sys
import tempfile
from concurrent.futures import ThreadPoolExecutor

import numpy as np
import torch
from hypothesis import strategies as st

from pwv import core, dwtu, xf
from pwv.core import Result, lib

ID = 'C15'
RULE_T = ('Model-based histories: a pool of %d fixed module configurations (every transform kind; neighbouring entries are twins that differ only in '
        'mode / option; separate row-column filters; layouts, masks, scattering families) x 3 input recipes of different shapes; each search unit owns a few (configuration, input) pairs whose GOLDEN '
        'result was computed as the very first library call of a fresh interpreter. Hypothesis draws sequences of up to 40 '
        'operations: construct(cfg, default dtype) (many instances coexist), construct-and-drop of any pool configuration, call(instance, input, no_grad | requires_grad | '
        'requires_grad+backward), a call with an input of the other precision (outcome ignored), concurrent batch of 2..8 calls on a thread pool (same or different instances), load of a filter '
        'table, lossless dtype round trip of an instance, the caller overwriting the filter arrays it handed to a constructor, call of an instance built in the other precision, drop(instance). '
        'Invariants after every step: arguments and coefficient lists bitwise unchanged (same list, same element identities); '
        'result bitwise equal to the golden; module buffers/parameters bitwise unchanged; process-wide numerical switches (default dtype, grad mode, subnormal flushing, deterministic algorithms, numpy error state) unchanged; tensors returned by the last three calls still hold their values. The interpreter running a shard is never '
        'restarted, so state also carries over between histories. Non-trivial history = >= 2 different shapes through one '
        'instance and >= 2 configurations interleaved. Distinct = operation sequence.')
ASSUMPTIONS = ['CPU kernels are bitwise deterministic across processes and threads (measured); a mismatch within 64 ulp of the largest value is counted '
               'as ulp_diff, not failed', 'thread schedules are not controlled: concurrency is stressed, not explored']
STRATA = {'thorough': 'every pool configuration (with its twin) is owned by some unit, on all 3 inputs', 'quick': ''}
LABEL_FLOORS = {}

# ---------------------------------------------------------------- fixed pool


def _pool():
    """Neighbouring entries are 'twins' (same kind, wavelet and sizes, different mode / option), because shared
    process-wide state is most likely to be keyed on what twins have in common."""
    P = []
    for w, J in [('db2', 2), ('bior2.4', 3)]:
        for m in ('symmetric', 'periodic', 'reflect', 'zero', 'periodization'):
            P.append({'kind': 'dwt2_fwd', 'wave': w, 'mode': m, 'J': J})
    for m in ('symmetric', 'periodic', 'zero', 'periodization'):
        P.append({'kind': 'dwt2_inv', 'wave': 'db2', 'mode': m, 'J': 2})
    # a level handed over as None (its size has to be inferred from the finer level on every call)
    P.append({'kind': 'dwt2_inv', 'wave': 'db2', 'mode': 'symmetric', 'J': 3, 'none': [1]})
    P.append({'kind': 'dwt2_inv', 'wave': 'db2', 'mode': 'zero', 'J': 2, 'none': [1]})
    # separate column / row filters (4-tuple form)
    P.append({'kind': 'dwt2_fwd', 'wave': 'db2', 'wave_row': 'bior2.2', 'mode': 'zero', 'J': 2})
    P.append({'kind': 'dwt2_fwd', 'wave': 'db3', 'wave_row': 'coif1', 'mode': 'periodization', 'J': 1})
    P.append({'kind': 'dwt2_inv', 'wave': 'db2', 'wave_row': 'bior2.2', 'mode': 'zero', 'J': 2})
    P.append({'kind': 'dwt2_inv', 'wave': 'db3', 'wave_row': 'coif1', 'mode': 'periodization', 'J': 1})
    for m in ('symmetric', 'periodic', 'reflect', 'zero', 'periodization'):
        P.append({'kind': 'dwt1_fwd', 'wave': 'db3', 'mode': m, 'J': 2})
    for m in ('symmetric', 'periodic', 'periodization'):
        P.append({'kind': 'dwt1_inv', 'wave': 'db3', 'mode': m, 'J': 2})
    # filters handed over as arrays the caller keeps (and may reuse: operation 'scribble')
    P.append({'kind': 'dwt1_inv', 'wave': 'db3', 'wave_form': 'tuple', 'mode': 'zero', 'J': 2})
    P.append({'kind': 'dwt1_inv', 'wave': 'db3', 'wave_form': 'tuple', 'mode': 'symmetric', 'J': 2})
    P.append({'kind': 'dwt2_inv', 'wave': 'db2', 'wave_form': 'tuple', 'mode': 'periodization', 'J': 2})
    P.append({'kind': 'dwt2_fwd', 'wave': 'db2', 'wave_form': 'tuple', 'mode': 'periodization', 'J': 2})
    P.append({'kind': 'swt', 'wave': 'db2', 'mode': 'periodization', 'J': 2})
    P.append({'kind': 'swt', 'wave': 'db3', 'mode': 'periodic', 'J': 1})
    for b, q, J, o, ri, extra in [('near_sym_a', 'qshift_a', 3, 2, -1, {}), ('near_sym_a', 'qshift_06', 3, 2, -1, {}),
                                  ('near_sym_b', 'qshift_d', 2, 1, 2, {}), ('near_sym_b', 'qshift_d', 2, 1, 2, {'mode': 'zero'}),
                                  ('antonini', 'qshift_06', 2, 4, 0, {'skip': [True, False]}),
                                  ('legall', 'qshift_c', 3, 2, 5, {'scales': [False, True, True]})]:
        P.append(dict({'kind': 'dtcwt_fwd', 'biort': b, 'qshift': q, 'J': J, 'o_dim': o, 'ri_dim': ri}, **extra))
    for b, q, J, o, ri in [('near_sym_a', 'qshift_a', 3, 2, -1), ('near_sym_a', 'qshift_06', 3, 2, -1),
                           ('near_sym_b', 'qshift_d', 2, 1, 2), ('antonini', 'qshift_06', 2, 4, 0)]:
        P.append({'kind': 'dtcwt_inv', 'biort': b, 'qshift': q, 'J': J, 'o_dim': o, 'ri_dim': ri})
    for k in ('afb2d', 'sfb2d', 'afb2d_nonsep', 'sfb2d_nonsep'):
        P.append({'kind': k, 'wave': 'db3', 'mode': 'periodization', 'J': 1})
        P.append({'kind': k, 'wave': 'db3', 'mode': 'symmetric', 'J': 1})
    P.append({'kind': 'scat1', 'biort': 'near_sym_a', 'qshift': None, 'colour': False, 'bias': 1e-2})
    P.append({'kind': 'scat1', 'biort': 'near_sym_b_bp', 'qshift': None, 'colour': True, 'bias': 1e-3})
    P.append({'kind': 'scat2', 'biort': 'near_sym_a', 'qshift': 'qshift_a', 'colour': False, 'bias': 1e-2})
    P.append({'kind': 'scat2', 'biort': 'near_sym_b_bp', 'qshift': 'qshift_b_bp', 'colour': True, 'bias': 1e-2})
    # custom pywt.Wavelet objects that share one name and differ in their filter banks (twins: same length / other length)
    P.append({'kind': 'dwt2_fwd', 'wave': 'db2', 'wave_form': 'object', 'fb_scale': [2.0, 0.5], 'mode': 'zero', 'J': 2})
    P.append({'kind': 'dwt2_fwd', 'wave': 'sym2', 'wave_form': 'object', 'fb_scale': [0.5, -1.0], 'mode': 'zero', 'J': 2})
    P.append({'kind': 'dwt1_inv', 'wave': 'db3', 'wave_form': 'object', 'fb_scale': [1.0, -1.0], 'mode': 'symmetric', 'J': 2})
    P.append({'kind': 'dwt1_inv', 'wave': 'db2', 'wave_form': 'object', 'fb_scale': [3.0, 0.25], 'mode': 'symmetric', 'J': 2})
    assert len(P) % 2 == 0
    return P


POOL = _pool()
RULE = RULE_T % len(POOL)
SIZES2 = [[16, 16], [9, 15], [24, 8], [64, 72]]        # the last entry is used by the thread-stress operation only
SIZES1 = [[32], [21], [12], [4096]]
INPUTS = [{'kind': 'gaussian', 'seed': 11, 'scale': 0}, {'kind': 'wide', 'seed': 12, 'scale': 0},
          {'kind': 'sparse', 'seed': 13, 'scale': 0}, {'kind': 'gaussian', 'seed': 14, 'scale': 0}]
TABLES = ['near_sym_a', 'qshift_a', 'near_sym_b_bp', 'qshift_b_bp', 'antonini', 'qshift_32']


def cfg_with_input(ci, ii):
    cfg = dict(POOL[ci])
    one_d = cfg['kind'].startswith('dwt1')
    size = list((SIZES1 if one_d else SIZES2)[ii])
    if cfg['kind'] == 'swt':
        P = 2 ** cfg['J']
        size = [max(P, n - n % P) for n in size]
    if cfg.get('mode') == 'reflect':
        L = dwtu.flen(cfg['wave'])
        size = [max(n, L + 1) for n in size]
        # reflect padding needs pad < size at every level; J belongs to the module, so it must suit all three inputs
        allsz = [[max(n, L + 1) for n in sz] for sz in (SIZES1 if one_d else SIZES2)[:3]]
        cfg['J'] = max(1, min(xf._safe_reflect(sz, L, cfg['J']) for sz in allsz))
    cfg['size'] = size
    N, C = [(2, 3), (1, 3), (3, 3), (2, 3)][ii] if xf.needs_three_channels(cfg) else [(2, 2), (1, 3), (3, 1), (2, 3)][ii]
    return cfg, N, C, INPUTS[ii]


def plan(tier):
    n_units = len(POOL) // 2 if tier == 'quick' else len(POOL)       # quick: every configuration is owned (with its twin) by one unit
    seed_rot = 2 * (int(os.environ.get('VERIF_SEED', '1') or '1') % (len(POOL) // 2))   # twins stay paired
    units = []
    for u in range(n_units):
        if tier == 'quick':
            # a configuration and its twin (the next pool entry), on the same input shapes
            c1 = (2 * u + seed_rot) % len(POOL)
            c2 = (c1 + 1) % len(POOL)
            own = [(c1, u % 3), (c1, (u + 1) % 3), (c2, u % 3), (c2, (u + 1) % 3), (c1, 3)]
            units.append({'n': 6, 'own': own})
        else:
            c1 = u % len(POOL)
            c2, c3 = (c1 + 1) % len(POOL), (u * 7 + 3) % len(POOL)
            own = [(c1, i) for i in range(3)] + [(c2, i) for i in range(3)] + [(c3, u % 3), (c1, 3)]
            units.append({'n': 40, 'own': own})
    return units


@st.composite
def _case(draw, unit):
    own = unit['own']
    n = len(own)
    op = st.one_of(
        st.tuples(st.just('construct'), st.integers(0, n - 1), st.sampled_from(['f32', 'f32', 'f64'])),
        st.tuples(st.just('call'), st.integers(0, 15), st.integers(0, n - 1),
                  st.sampled_from(['no_grad', 'requires_grad', 'backward'])),
        st.tuples(st.just('call'), st.integers(0, 15), st.integers(0, n - 1),
                  st.sampled_from(['no_grad', 'requires_grad', 'backward'])),
        st.tuples(st.just('threads'), st.integers(2, 8), st.integers(0, 10**6)),
        st.tuples(st.just('thread_stress'), st.integers(3, 6), st.sampled_from(['no_grad', 'backward'])),
        st.tuples(st.just('load'), st.sampled_from(TABLES)),
        st.tuples(st.just('roundtrip'), st.integers(0, 15)),
        st.tuples(st.just('other_dtype'), st.integers(0, n - 1)),
        st.tuples(st.just('wrong_dtype_call'), st.integers(0, 15)),
        st.tuples(st.just('scribble'), st.integers(0, 15)),
        st.tuples(st.just('construct_only'), st.integers(0, len(POOL) - 1), st.sampled_from(['f32', 'f64'])),
        st.tuples(st.just('drop'), st.integers(0, 15)))
    first = [('construct', 0, 'f32'), ('construct', 2, 'f32')]
    ops = first + draw(st.lists(op, min_size=4, max_size=38))
    return {'own': [list(o) for o in own], 'ops': [list(o) for o in ops]}


def strategy(unit):
    return _case(unit)


# ---------------------------------------------------------------- goldens
_GOLD = {}


def _job(ci, ii, dtype, convert=None):
    cfg, N, C, rx = cfg_with_input(ci, ii)
    return {'cfg': cfg, 'N': N, 'C': C, 'rx': rx, 'dtype': dtype, 'convert': convert}


def goldens(jobs):
    """Compute missing goldens, each in its own fresh interpreter; at most PWV_GOLDEN_PAR (default 4 with <= 8 shards, else 2) at a time per
    shard, because every interpreter imports torch (~350 MB) and 16 shards run side by side."""
    par = max(1, int(os.environ.get('PWV_GOLDEN_PAR', '4' if int(os.environ.get('PWV_NSHARDS', '16')) <= 8 else '2')))
    pending = []
    for job in jobs:
        key = json.dumps(job, sort_keys=True)
        if key not in _GOLD and key not in [k for k, _ in pending]:
            pending.append((key, job))
    while pending:
        batch, pending = pending[:par], pending[par:]
        todo = []
        for key, job in batch:
            out = tempfile.NamedTemporaryFile(suffix='.npz', dir=os.path.join(core.VERIF, '.work'), delete=False)
            out.close()
            p = subprocess.Popen([sys.executable, '-B', '-m', 'pwv.golden', out.name], stdin=subprocess.PIPE,
                                 stdout=subprocess.PIPE, stderr=subprocess.PIPE, cwd=core.VERIF)
            p.stdin.write(json.dumps(job).encode())
            p.stdin.close()
            todo.append((key, p, out.name))
        for key, p, path in todo:
            err = p.stderr.read().decode()[-1500:]
            rc = p.wait()
            try:
                if rc != 0:
                    _GOLD[key] = ('error', err)
                else:
                    with np.load(path) as z:
                        arrs = [z['arr_%d' % i] for i in range(len(z.files) - 1)]
                        n_out = int(z['n_out'])
                        _GOLD[key] = ('ok', (arrs[:n_out], arrs[n_out:]))
            finally:
                os.unlink(path)
    return [_GOLD[json.dumps(job, sort_keys=True)] for job in jobs]


def cotangent(o):
    """A fixed, dense, sign-changing cotangent of the shape of o (the same in the golden interpreter and here)."""
    n = o.numel()
    return torch.cos(0.37 * torch.arange(n, dtype=torch.float64) + 0.5).reshape(o.shape).to(o.dtype)


def _same(outs, gold, r, what):
    """Bitwise comparison with the golden; returns False on a violation."""
    if len(outs) != len(gold):
        r.fail('result_structure', '%s: %d output tensors, golden has %d' % (what, len(outs), len(gold)))
        return False
    for i, (o, g) in enumerate(zip(outs, gold)):
        a = o.detach().numpy()
        if a.shape != g.shape or a.dtype != g.dtype:
            r.fail('result_shape', '%s: output %d is %s %s, golden %s %s' % (what, i, a.shape, a.dtype, g.shape, g.dtype))
            return False
        if not np.array_equal(a, g, equal_nan=True):
            d = np.abs(a.astype(np.float64) - g.astype(np.float64))
            scale = max(float(np.abs(g).max()), 1e-300)
            eps = core.EPS32 if a.dtype == np.float32 else core.EPS64
            if np.all(np.isfinite(d)) and d.max() <= 64 * eps * scale:
                r.label('ulp_diff')
                continue
            r.fail('history_dependence', '%s: output %d differs from the fresh-interpreter golden by %.3g (scale %.3g)' %
                   (what, i, float(d.max()), scale))
            return False
    return True


class _Inst:
    def __init__(self, oi, dtype, cfg_key):
        self.oi, self.dtype, self.cfg_key = oi, dtype, cfg_key
        self.mods = {}          # input index -> (module, fn)  (functional kinds rebuild per size; modules are size-free)
        self.snap = None
        self.shapes = set()
        self.converted = False


def _global_state():
    """Process-wide switches that change what later, unrelated calls compute: a library call or constructor must leave
    them alone (the harness restores the default dtype itself after building a module)."""
    tiny = torch.tensor([1e-40], dtype=torch.float32)
    st_ = {'default_dtype': str(torch.get_default_dtype()), 'grad_enabled': torch.is_grad_enabled(),
           'subnormals_flushed': bool((tiny * 1.0)[0] == 0) or bool((torch.tensor([1e-30]) * torch.tensor([1e-10]))[0] == 0),
           'deterministic_algorithms': torch.are_deterministic_algorithms_enabled(),
           'inference_mode': torch.is_inference_mode_enabled()}
    try:
        st_['float32_matmul_precision'] = torch.get_float32_matmul_precision()
    except Exception:           # noqa
        pass
    st_['numpy_errstate'] = tuple(sorted(np.geterr().items()))
    return st_


def run_case(case):
    r = Result()
    r.key = core.short_hash(json.dumps(case, sort_keys=True))
    own = [tuple(o) for o in case['own']]
    insts = []
    used_cfgs = set()
    kept = []
    import threading
    keep_lock = threading.Lock()

    def build(oi, dtype):
        ci, ii = own[oi]
        cfg, N, C, rx = cfg_with_input(ci, ii)
        keep = []
        m, fn = xf.build(cfg, dwtu.tdt(dtype), keep)
        inst = _Inst(oi, dtype, ci)
        inst.m, inst.fn = m, fn
        inst.arrays, inst.arr_snap, inst.scribbled = keep, [a.copy() for a in keep], False
        inst.snap = None if m is None else {k: v.clone() for k, v in m.state_dict().items()}
        return inst

    def one_call(inst, oi, mode, what):
        """Call instance `inst` (built for the configuration of own[inst.oi]) on the input of own[oi] if the two
        share the configuration index, else on its own input."""
        cands = [o for o in own if o[0] == inst.cfg_key and (o[1] == 3) == (oi == 'stress')] or \
            [o for o in own if o[0] == inst.cfg_key]
        ci, ii = cands[(0 if oi == 'stress' else oi) % len(cands)]
        cfg, N, C, rx = cfg_with_input(ci, ii)
        job = _job(ci, ii, inst.dtype, 'roundtrip' if inst.converted else None)
        (st_, gold), = goldens([job])
        gold_grads = None
        if st_ == 'ok':
            gold, gold_grads = gold
        if st_ != 'ok':
            # the same call as the very first call of a fresh interpreter failed
            r.fail('fresh_interpreter_call_failed', '%s: the golden run (first call in a fresh interpreter) failed: %s' %
                   (what, gold[-600:]))
            return False
        x = core.make(rx, [N, C, xf.total_in(cfg)]).astype(dwtu.ndt(inst.dtype))
        ins = xf.pack(x, cfg, dwtu.tdt(inst.dtype))
        snaps = [t.clone() for t in ins]
        if mode != 'no_grad':
            ins = [t.requires_grad_(True) for t in ins]
        fn = inst.fn
        if mode == 'no_grad':
            with torch.no_grad():
                ok, outs = lib(fn, ins)
        else:
            ok, outs = lib(fn, ins)
        if not ok:
            r.fail(outs.bucket, '%s raised: %s' % (what, outs))
            return False
        if mode == 'backward':
            diff = [t for t in outs if t.requires_grad]
            if diff:
                ok, gs = lib(torch.autograd.grad, diff, ins, [cotangent(t) for t in diff], allow_unused=True)
                if not ok:
                    r.fail(gs.bucket, '%s: backward raised: %s' % (what, gs))
                    return False
                if gold_grads:
                    gts = [torch.zeros(0, dtype=ins[0].dtype) if g_ is None else g_ for g_ in gs]
                    if not _same(gts, gold_grads, r, what + ' [gradients]'):
                        return False
        for t, s in zip(ins, snaps):
            if t.shape != s.shape or not torch.equal(t.detach(), s):
                r.fail('argument_mutated', '%s modified one of its argument tensors' % what)
                return False
        if xf.ARG_MUTATIONS:
            r.fail('argument_list_mutated', '%s: %s' % (what, xf.ARG_MUTATIONS[0]))
            del xf.ARG_MUTATIONS[:]
            return False
        inst.shapes.add(tuple(cfg['size']))
        used_cfgs.add(ci)
        if not _same(outs, gold, r, what):
            return False
        # results returned earlier must not be touched by later calls (no recycled output buffers)
        with keep_lock:
            for (w_, ts_, copies_) in list(kept):
                for t_, c_ in zip(ts_, copies_):
                    if not torch.equal(t_.detach(), c_):
                        r.fail('earlier_result_overwritten', 'a tensor returned by %s was modified by %s' % (w_, what))
                        return False
            kept.append((what, [t.detach() for t in outs], [t.detach().clone() for t in outs]))
            if len(kept) > 3:
                kept.pop(0)
        if inst.snap is not None and not inst.converted:
            now = inst.m.state_dict()
            for k, v in inst.snap.items():
                if k not in now or now[k].dtype != v.dtype or not torch.equal(now[k], v):
                    r.fail('module_state_changed', '%s changed the module buffer %s' % (what, k))
                    return False
        if not inst.scribbled and any(not np.array_equal(a, c) for a, c in zip(inst.arrays, inst.arr_snap)):
            r.fail('constructor_argument_mutated', '%s: a filter array that was handed to the constructor has been modified' % what)
            return False
        return True

    # all goldens this history can need, each from its own fresh interpreter, started in parallel
    goldens([_job(ci, ii, dt) for ci, ii in own if ii != 3 for dt in ('f32', 'f64')])
    g0 = _global_state()
    for step, op in enumerate(case['ops']):
        kind = op[0]
        what = 'step %d %s' % (step, op)
        if step:
            gs = _global_state()
            if gs != g0:
                return r.fail('process_state_changed', 'step %d %s left process-wide numerical state changed: %s' % (
                    step - 1, case['ops'][step - 1], ', '.join('%s %r -> %r' % (k, g0[k], gs[k]) for k in g0 if g0[k] != gs[k])))
        if kind == 'construct':
            ok, inst = lib(build, op[1] % len(own), op[2])
            if not ok:
                return r.fail(inst.bucket, 'construction raised: %s' % inst)
            insts.append(inst)
            r.label('construct_' + op[2])
        elif kind == 'call' and insts:
            inst = insts[op[1] % len(insts)]
            r.label('call_' + op[3])
            if not one_call(inst, op[2] % len(own), op[3], what):
                return r
        elif kind == 'threads' and insts:
            rs = np.random.RandomState(op[2])
            jobs = [(insts[rs.randint(len(insts))], int(rs.randint(len(own))), ['no_grad', 'requires_grad', 'backward'][rs.randint(3)])
                    for _ in range(op[1])]
            # make sure the goldens exist before the threads start
            for inst, oi, _ in jobs:
                cands = [o for o in own if o[0] == inst.cfg_key and o[1] != 3] or [o for o in own if o[0] == inst.cfg_key]
                ci, ii = cands[oi % len(cands)]
                goldens([_job(ci, ii, inst.dtype, 'roundtrip' if inst.converted else None)])
            r.label('threads')
            with ThreadPoolExecutor(op[1]) as ex:
                res = list(ex.map(lambda j: one_call(j[0], j[1], j[2], what + ' (thread)'), jobs))
            if not all(res):
                return r
        elif kind == 'thread_stress' and insts:
            # several threads hammer instances of the configuration that owns the large input: separate instances,
            # separate argument tensors, same shapes - anything shared inside the library shows up as a wrong result
            big = [o for o in own if o[1] == 3]
            if big:
                ci_big = big[0][0]
                pool_ = [i_ for i_ in insts if i_.cfg_key == ci_big and not i_.converted]
                while len(pool_) < op[1]:
                    ok, ni = lib(build, own.index(big[0]), 'f32')
                    if not ok:
                        return r.fail(ni.bucket, 'construction raised: %s' % ni)
                    pool_.append(ni)
                goldens([_job(ci_big, 3, 'f32'), _job(ci_big, 3, 'f64')])
                r.label('thread_stress')
                with ThreadPoolExecutor(op[1]) as ex:
                    res = list(ex.map(lambda i_: all(one_call(i_, 'stress', op[2], what + ' (stress thread)') for _ in range(5)),
                                      pool_[:op[1]]))
                if not all(res):
                    return r
        elif kind == 'load':
            import pytorch_wavelets.dtcwt.coeffs as pc
            ok, e = lib(pc.qshift if op[1].startswith('qshift') else pc.biort, op[1])
            if not ok:
                return r.fail(e.bucket, 'loading %s raised: %s' % (op[1], e))
        elif kind == 'roundtrip' and insts:
            inst = insts[op[1] % len(insts)]
            if inst.m is not None:
                inst.m = inst.m.double().float() if inst.dtype == 'f32' else inst.m.float().double()
                inst.converted = True
                r.label('dtype_roundtrip')
        elif kind == 'other_dtype':
            oi = op[1] % len(own)
            ok, inst = lib(build, oi, 'f64')
            if not ok:
                return r.fail(inst.bucket, 'construction raised: %s' % inst)
            r.label('call_other_dtype')
            if not one_call(inst, oi, 'no_grad', what):
                return r
        elif kind == 'wrong_dtype_call' and insts:
            # an input of the other precision on the same instance: the library may reject it or compute; either way
            # it must leave nothing behind (checked by the buffers snapshot and the goldens of all later calls)
            inst = insts[op[1] % len(insts)]
            ci, ii = [o for o in own if o[0] == inst.cfg_key][0]
            cfg, N, C, rx = cfg_with_input(ci, ii)
            other = 'f64' if inst.dtype == 'f32' else 'f32'
            xo = core.make(rx, [N, C, xf.total_in(cfg)]).astype(dwtu.ndt(other))
            with torch.no_grad():
                lib(inst.fn, xf.pack(xo, cfg, dwtu.tdt(other)))
            r.label('wrong_dtype_call')
            if inst.snap is not None and not inst.converted:
                now = inst.m.state_dict()
                for k, v in inst.snap.items():
                    if k not in now or now[k].dtype != v.dtype or not torch.equal(now[k], v):
                        return r.fail('module_state_changed', '%s: a call with a %s input changed the module buffer %s' %
                                      (what, other, k))
        elif kind == 'construct_only':
            # any configuration of the pool is constructed (not called, so no golden is needed) and dropped: a
            # constructor must not leave anything behind that later calls of other modules can see
            cfg_ = dict(POOL[op[1] % len(POOL)])
            cfg_['size'] = [16, 16] if not cfg_['kind'].startswith('dwt1') else [32]
            ok, e = lib(xf.build, cfg_, dwtu.tdt(op[2]))
            if not ok:
                return r.fail(e.bucket, 'construction raised: %s' % e)
            r.label('construct_only')
        elif kind == 'scribble' and insts:
            # the caller reuses the arrays it handed to a constructor: the module must own copies (checked by the
            # buffer snapshot right here and by the goldens of all later calls)
            inst = insts[op[1] % len(insts)]
            if inst.arrays:
                for a in inst.arrays:
                    a[...] = 3.0
                inst.scribbled = True
                r.label('constructor_arrays_reused')
                now = inst.m.state_dict()
                if not inst.converted:
                    for k, v in inst.snap.items():
                        if k not in now or not torch.equal(now[k], v):
                            return r.fail('module_aliases_constructor_arrays', '%s: overwriting the arrays that were handed to the '
                                          'constructor changed the module buffer %s' % (what, k))
        elif kind == 'drop' and len(insts) > 1:
            insts.pop(op[1] % len(insts))
    gs = _global_state()
    if gs != g0:
        return r.fail('process_state_changed', 'the last step %s left process-wide numerical state changed: %s' % (
            case['ops'][-1], ', '.join('%s %r -> %r' % (k, g0[k], gs[k]) for k in g0 if g0[k] != gs[k])))
    r.nontrivial = any(len(i.shapes) >= 2 for i in insts) and len(used_cfgs) >= 2
    r.label('multi_shape_instance' if any(len(i.shapes) >= 2 for i in insts) else None,
            'interleaved_cfgs' if len(used_cfgs) >= 2 else None)
    return r


LEVEL_TEXT = ('Model-based generated histories (construct / call in three autograd modes / concurrent thread batches / table loads / '
              'dtype round trips / other-precision calls / drops) over a pool of ~50 configurations covering every transform; after '
              'every step the arguments must be bitwise untouched, module state unchanged, and the result bitwise equal to a golden '
              'computed as the first call of a fresh interpreter. Thread interleavings are stressed with real thread pools, not '
              'enumerated.')
LEVEL_TEXT += (' Also checked after every step: process-wide numerical switches unchanged, constructor arrays untouched (and free to be overwritten by the caller), coefficient lists unmodified, gradients equal to golden gradients; operations include thread stress on large inputs and construct-and-drop of any configuration.')
LEVEL_TEXT += (' Round 10: twin pool entries built from custom pywt.Wavelet objects that share one name and differ in their filter banks.')
LEVEL_NOTE = ('Exploration only: the harness does not own the thread schedule, so races that need a rare interleaving can be missed; '
              'goldens trust process isolation and bitwise-deterministic CPU kernels (mismatches up to 64 ulp of the largest value are counted, not failed).')
TECHNIQUE = 'model-based / stateful property-based testing (Hypothesis operation sequences) against fresh-interpreter goldens'
