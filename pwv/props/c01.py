"""C01 - DWT analysis equals PyWavelets (1-D and 2-D)."""
import numpy as np
import torch
from hypothesis import strategies as st

from pwv import core, dwtu
from pwv.core import Result, lib

ID = 'C01'
RULE = ('[one free case in 200 is a batch of 2-4 million samples with short filters, dense comparison only] ' +
        'Hypothesis draws (dim, wavelet by family then member, mode, J, size '
        'built around filter length / powers of two / odd twins, N, C, dtype, '
        'content recipes); oracle = pywt.wavedec/wavedec2 on the full extracted '
        'operator (basis inputs) and on dense inputs. Non-trivial = not (db1/haar '
        'and all sizes even and J=1). Distinct = configuration without content '
        'seeds.')
ASSUMPTIONS = ['PyWavelets (C implementation) is the reference',
               'linearity (C07) lets the operator comparison cover all inputs',
               'float64 tolerance 1e-11*max(1,gain*max|x|); float32 tolerance '
               '64*eps32*gain*max|x|']
STRATA = {'thorough': 'every (wavelet, mode, dim) combination: 106 x 5 x 2',
          'quick': ''}
LABEL_FLOORS = {'odd': 0.25, 'J>=2': 0.3}


def plan(tier):
    if tier == 'quick':
        return [{'n': 300} for _ in range(8)]
    units = []
    for w in dwtu.WAVES:
        for m in dwtu.MODES5:
            for dim in (1, 2):
                units.append({'n': 10, 'wave': w, 'mode': m, 'dim': dim})
    units += [{'n': 1500} for _ in range(16)]
    return units


@st.composite
def _case(draw, unit):
    dim = unit.get('dim') or draw(st.sampled_from([1, 1, 2]))
    w = unit.get('wave') or draw(dwtu.wavelet_strategy())
    mode = unit.get('mode') or draw(st.sampled_from(dwtu.MODES5))
    L = dwtu.flen(w)
    J = draw(st.sampled_from([1, 1, 2, 2, 3, 4, 4, 6, 8]))          # deeper than pywt.dwt_max_level happens too
    large = draw(st.integers(0, 19)) == 0         # 5%: sizes far beyond the usual caps (dense checks + column subset)
    if dim == 1:
        size = [draw(dwtu.size_strategy(L, J, cap=2048 if large else max(96, min(2 * L + 8, 160))))]
    else:
        size = [draw(dwtu.size_strategy(L, J, cap=192 if large else 20)),
                draw(dwtu.size_strategy(L, J, cap=192 if large else 20))]
    if mode == 'periodization':
        # keep most periodization cases outside the short-signal finding D1
        inside = draw(st.integers(0, 99)) < 15
        if not inside:
            need = dwtu.even_up(L) * 2 ** (J - 1)
            capd = 160 if dim == 1 else 24
            if need > capd:
                J = 1
                need = dwtu.even_up(L)
            size = [max(s, need) if max(s, need) <= max(capd, need) else need
                    for s in size]
    w2 = None
    if dim == 2 and not unit.get('wave') and draw(st.integers(0, 3)) == 0:
        # separate column / row wavelets (the documented 4-tuple form), constructed to differ
        pick = draw(dwtu.wavelet_strategy(max_len=40))
        w2 = pick if pick != w else dwtu.WAVES[(dwtu.WAVES.index(w) + 1) % len(dwtu.WAVES)]
        L2 = dwtu.flen(w2)
        size[1] = draw(dwtu.size_strategy(L2, J, cap=20))
        if mode == 'periodization' and draw(st.integers(0, 99)) >= 15:
            need2 = dwtu.even_up(L2) * 2 ** (J - 1)
            size[1] = max(size[1], need2) if need2 <= 48 else size[1]
    return {
        'dim': dim, 'wave': w, 'wave_row': w2, 'mode': mode, 'J': J, 'size': size,
        'N': draw(st.sampled_from([1, 1, 2, 3, 3, 9])),
        'C': draw(st.sampled_from([1, 1, 2, 3, 5, 17, 33])) if not large else draw(st.sampled_from([1, 2])),
        'dtype': draw(st.sampled_from(['f64', 'f64', 'f64', 'f64', 'f32'])),
        'wave_form': draw(st.sampled_from(['name', 'name', 'name', 'object', 'tuple', 'tuple'])),
        # tuple forms: 1-D arrays, plain lists, or (L,1) column arrays (what the low-level code itself produces)
        'tuple_container': draw(st.sampled_from(['array1d', 'array1d', 'list', 'column'])),
        # 'per' is the accepted short spelling of 'periodization'
        'mode_spelling': 'per' if (mode == 'periodization' and draw(st.integers(0, 2)) == 0) else mode,
        # for the tuple form: a rescaled (still perfect-reconstruction) filter bank, analysis (lo*a, hi*b),
        # synthesis (lo/a, hi/b), e.g. the JPEG2000 normalisation
        'fb_scale': draw(st.sampled_from([[1.0, 1.0], [1.0, 1.0], [2 ** 0.5, 2 ** -0.5], [2 ** -0.5, 2 ** 0.5], [2.0, 0.5],
                                          [0.5, 1.0], [1.0, -1.0], [3.0, 0.25]])),
        # the module had a previous life with another wavelet of the same length (load_state_dict in between)
        'reused': draw(st.integers(0, 4)) == 0,
        # between construction and use, another module of the class is constructed for another wavelet and mode (and used once)
        'later_sibling': draw(st.integers(0, 3)) == 0,
        'ctx': draw(st.sampled_from(core.GRAD_CTXS)),
        'rx': draw(core.recipe_strategy()),
        'k': draw(st.integers(0, 10**6)),
    }


MILLIONS2 = [(4, 4, 512, 512), (16, 2, 256, 512), (1, 3, 1024, 1024), (2, 3, 512, 1000), (8, 8, 255, 257)]
MILLIONS1 = [(4, 4, 2 ** 18), (1, 3, 10 ** 6), (32, 2, 2 ** 16 + 1)]


@st.composite
def _case_or_millions(draw, unit):
    case = draw(_case(unit))
    if 'wave' not in unit and draw(st.integers(0, 199)) == 0:
        # occasionally a batch of several million samples (where an implementation may start to work in chunks):
        # short filters, few levels, dense comparison and two operator columns only
        w = draw(dwtu.wavelet_strategy(max_len=8))
        shp = draw(st.sampled_from(MILLIONS1 if case['dim'] == 1 else MILLIONS2))
        case.update({'wave': w, 'wave_row': None, 'J': min(case['J'], 3), 'N': shp[0], 'C': shp[1], 'size': list(shp[2:]),
                     'reused': False, 'millions': True})
    return case


def strategy(unit):
    return _case_or_millions(unit)


def wave_arg(case, kind='dec'):
    """The documented forms of the `wave` argument: a name, a pywt.Wavelet, or a tuple of filter arrays."""
    import pywt
    if case.get('wave_row'):
        wc, wr = pywt.Wavelet(case['wave']), pywt.Wavelet(case['wave_row'])
        if kind == 'dec':
            return tuple(np.array(a) for a in (wc.dec_lo, wc.dec_hi, wr.dec_lo, wr.dec_hi))
        return tuple(np.array(a) for a in (wc.rec_lo, wc.rec_hi, wr.rec_lo, wr.rec_hi))
    form = case.get('wave_form', 'name')
    if form == 'name':
        return case['wave']
    w = ref_wavelet(case)
    if form == 'object':
        return w
    pair = (w.dec_lo, w.dec_hi) if kind == 'dec' else (w.rec_lo, w.rec_hi)
    cont = case.get('tuple_container', 'array1d')
    if cont == 'list':
        return tuple(list(a) for a in pair)
    if cont == 'column':
        return tuple(np.array(a).reshape(-1, 1) for a in pair)
    return tuple(np.array(a) for a in pair)


def scribble(wa):
    """After construction the caller is free to reuse its filter arrays: overwrite them. A module that kept a view
    of them instead of its own copy changes behaviour and fails the ordinary oracle."""
    if isinstance(wa, tuple):
        for a in wa:
            if isinstance(a, np.ndarray):
                a[...] = 7.0


def axis_lens(case):
    """Filter length per axis."""
    if case['dim'] == 1:
        return [dwtu.flen(case['wave'])]
    return [dwtu.flen(case['wave']), dwtu.flen(case.get('wave_row') or case['wave'])]


def ref_wavelet(case):
    """The PyWavelets wavelet the case talks about: a built-in one, or (tuple form) a rescaled custom filter bank."""
    import pywt
    if case.get('wave_row'):
        return (pywt.Wavelet(case['wave']), pywt.Wavelet(case['wave_row']))
    w = pywt.Wavelet(case['wave'])
    # tuple form and object form: rescaled custom banks too. The custom pywt.Wavelet objects all carry the same name while
    # their banks differ from case to case: a module built from an object uses that object's filters (seeded change C15-11)
    a, b = case.get('fb_scale', [1.0, 1.0]) if case.get('wave_form') in ('tuple', 'object') else (1.0, 1.0)
    if (a, b) == (1.0, 1.0):
        return w
    return pywt.Wavelet('custom', filter_bank=[np.array(w.dec_lo) * a, np.array(w.dec_hi) * b,
                                               np.array(w.rec_lo) / a, np.array(w.rec_hi) / b])


def later_sibling(case, cls, inverse=False):
    """History step between construction and use: a module of the same class for another wavelet and another padding mode is
    constructed and used once. A module computes with its own construction parameters, not the process's most recent ones."""
    if not case.get('later_sibling'):
        return
    w2 = 'sym4' if case['wave'] != 'sym4' else 'db3'
    m2 = 'zero' if case['mode'] != 'zero' else 'symmetric'
    d = case['dim']
    with dwtu.default_dtype(dwtu.tdt(case['dtype'])), torch.inference_mode(False):
        if inverse:
            core.libcall(lambda: cls(wave=w2, mode=m2)((torch.ones([1, case['C']] + [12] * d),
                                                        [torch.ones([1, case['C']] + ([12] if d == 1 else [3, 12, 12]))])))
        else:
            core.libcall(lambda: cls(J=2, wave=w2, mode=m2)(torch.ones([1, case['C']] + [24] * d)))


def _module(case):
    m = _module0(case)
    from pytorch_wavelets import DWT1DForward, DWTForward
    later_sibling(case, DWT1DForward if case['dim'] == 1 else DWTForward)
    return m


def _module0(case):
    from pytorch_wavelets import DWT1DForward, DWTForward
    cls = DWT1DForward if case['dim'] == 1 else DWTForward
    msp = case.get('mode_spelling', case['mode'])
    with dwtu.default_dtype(dwtu.tdt(case['dtype'])):
        sib = dwtu.sibling(case['wave']) if (case.get('reused') and not case.get('wave_row') and case['mode'] != 'reflect') else None
        if sib is None:
            wa = wave_arg(case)
            m = cls(J=case['J'], wave=wa, mode=msp)
            scribble(wa)
            return m

        def warm(m):
            n = max(case['size']) + 2 * dwtu.flen(case['wave'])
            x = torch.ones([1, case['C']] + [n] * case['dim'], requires_grad=True)
            yl, yh = m(x)
            (yl.sum() + sum(h.sum() for h in yh)).backward()
        return dwtu.reused_module(lambda: cls(J=case['J'], wave=wave_arg(case), mode=msp),
                                  lambda: cls(J=case['J'], wave=sib, mode=msp), warm)


def _flat(yl, yh):
    return dwtu.flat1(dwtu.to_np(yl), [dwtu.to_np(h) for h in yh])


def run_case(case):
    with core.grad_ctx(case.get('ctx')):
        r = _run_case(case)
    return r.label('ctx_' + case['ctx']) if case.get('ctx', 'default') != 'default' else r


def _run_case(case):
    r = Result()
    dim, w, mode, J = case['dim'], case['wave'], case['mode'], case['J']
    size = list(case['size'])
    L = dwtu.flen(w)
    f32 = case['dtype'] == 'f32'
    Ls = axis_lens(case)
    per_axis = [dwtu.level_lengths(n, L_, mode, J) for n, L_ in zip(size, Ls)]
    in_d1 = any(dwtu.d1_analysis(ns, L_, mode) for (ns, _), L_ in zip(per_axis, Ls))
    may_raise = any(dwtu.reflect_may_raise(ns, L_, mode) for (ns, _), L_ in zip(per_axis, Ls))
    L = max(Ls)
    r.label('dim%d' % dim, mode, 'f32' if f32 else 'f64', 'wave_as_' + case.get('wave_form', 'name'),
            'mode_spelled_per' if case.get('mode_spelling') == 'per' else None,
            'reused_module' if case.get('reused') and dwtu.sibling(w) else None,
            'sibling_constructed_later' if case.get('later_sibling') else None)
    r.label('odd' if any(n % 2 for n in size) else None,
            'short<L' if any(n < L_ for n, L_ in zip(size, Ls)) else None,
            'separate_row_col_wavelets' if case.get('wave_row') else None,
            'J>=2' if J >= 2 else None, 'C>1' if case['C'] > 1 else None,
            'N>1' if case['N'] > 1 else None,
            'nonsquare' if dim == 2 and size[0] != size[1] else None,
            'L>=20' if L >= 20 else None, 'large_size' if max(size) > 160 else None,
            'in_D1_predicate' if in_d1 else None,
            'reflect_may_raise' if may_raise else None)
    r.nontrivial = not (L == 2 and all(n % 2 == 0 for n in size) and J == 1)

    mod = _module(case)
    tdt = dwtu.tdt(case['dtype'])
    if case['k'] % 3 == 0:
        r.label('after_other_precision_call')
        dwtu.other_precision_call(mod, [1, 1] + size, tdt)
    refw = wave_ref = ref_wavelet(case)
    r.label('rescaled_filter_bank' if wave_ref is not None and case.get('wave_form') in ('tuple', 'object') and
            case.get('fb_scale', [1.0, 1.0]) != [1.0, 1.0] else None,
            'custom_wavelet_object' if case.get('wave_form') == 'object' and not case.get('wave_row') and
            case.get('fb_scale', [1.0, 1.0]) != [1.0, 1.0] else None)
    reffn = dwtu.ref_wavedec if dim == 1 else dwtu.ref_wavedec2

    def values_mismatch(what, msg):
        if in_d1 and core.kf_open('KF-D1-analysis', ID):
            r.known('KF-D1-analysis', msg)
        else:
            r.fail('values:%s:%s:dim%d' % (what, mode, dim), msg)

    # ---- 1. the whole operator, from basis inputs (one batched call)
    ntot = int(np.prod(size))
    M, full = dwtu.basis_rows(ntot, case['k'], cap=dwtu.op_cap(dim, L), sub=2 if case.get('millions') else 48)
    r.label('millions_of_samples' if case.get('millions') else None)
    B = M.reshape([M.shape[0]] + size)       # (n, *size)
    r.label('full_operator' if full else 'operator_column_subset')
    X = torch.tensor(B[:, None], dtype=tdt)  # (n, 1, *size)
    ok, out = lib(mod, X)
    if not ok:
        if may_raise:
            r.allowed_rejection = True
            r.label('rejected_reflect_short')
            return r
        return r.fail(out.bucket, 'forward raised on basis batch: %s' % out)
    yl, yh = out
    ref_yl, ref_yh = reffn(B, refw, mode, J)
    if len(yh) != J:
        return r.fail('structure:levels', 'len(yh)=%d, J=%d' % (len(yh), J))
    # shapes, finest first
    exp = [(B.shape[0], 1) + ref_yl.shape[1:]] + \
        [(B.shape[0], 1) + h.shape[1:] for h in ref_yh]
    got = [tuple(yl.shape)] + [tuple(h.shape) for h in yh]
    if got != exp:
        return r.fail('shape:%s:dim%d' % (mode, dim),
                      'band shapes %s, PyWavelets %s' % (got, exp))
    A_impl = _flat(yl, yh)
    A_ref = dwtu.flat1(ref_yl, ref_yh)
    g = core.gain(A_ref.T)
    tol = (64 * core.EPS32 if f32 else core.TOL64) * max(1.0, g)
    okc, err = core.close(A_impl, A_ref, tol)
    r.metric('operator_abs_err_f32' if f32 else 'operator_abs_err_f64', err)
    if not okc:
        values_mismatch('operator', 'operator differs from PyWavelets: ' +
                        core.first_mismatch(A_impl, A_ref, tol))

    # ---- 2. one basis vector on its own (the batching is not trusted)
    k = case['k'] % B.shape[0]
    ok, out1 = lib(mod, X[k:k + 1].clone())
    if not ok:
        return r.fail(out1.bucket, 'forward raised on single basis input')
    a1 = _flat(*out1)[0]
    okc, err = core.close(a1, A_impl[k], 8 * tol if f32 else 1e-12 * max(1, g))
    if not okc:
        r.fail('batch_dependence:dim%d' % dim,
               'basis vector %d alone differs from the batched call: %s' %
               (k, core.first_mismatch(a1, A_impl[k], tol)))

    # ---- 3. dense generated input with N, C > 1
    x = core.make(case['rx'], [case['N'], case['C']] + size)
    ok, out2 = lib(mod, torch.tensor(x, dtype=tdt))
    if not ok:
        return r.fail(out2.bucket, 'forward raised on dense input: %s' % out2)
    y_impl = _flat(*out2)
    snap2 = dwtu.snapshot_out(out2)
    if f32:
        x = x.astype(np.float32).astype(np.float64)
    ryl, ryh = reffn(x, refw, mode, J)
    y_ref = dwtu.flat1(ryl, ryh)
    for t, e in zip([out2[0]] + list(out2[1]), [ryl] + list(ryh)):
        if tuple(t.shape) != e.shape:
            return r.fail('shape_dense:%s:dim%d' % (mode, dim),
                          'dense band shape %s vs %s' % (tuple(t.shape), e.shape))
        if t.dtype != tdt:
            return r.fail('dtype', 'output dtype %s for input %s' % (t.dtype, tdt))
    # g comes from the extracted columns: with a column subset it can underestimate the operator norm, so the scale is
    # never smaller than the largest reference coefficient itself (thorough run, seed 3: 10 eps32 of a 2.6e5 lowpass)
    scale2 = max(g * core.maxabs(x), core.maxabs(y_ref), 1e-300)
    tol2 = (64 * core.EPS32 if f32 else core.TOL64) * scale2
    okc, err = core.close(y_impl, y_ref, tol2)
    r.metric('dense_rel_err', err / scale2)
    if not okc:
        values_mismatch('dense', 'dense input differs from PyWavelets: ' +
                        core.first_mismatch(y_impl, y_ref, tol2))
    # the same call while autograd is recording must give the same numbers
    xg = torch.tensor(x, dtype=tdt).requires_grad_(True)
    ok, out3 = lib(mod, xg)
    if not ok:
        return r.fail(out3.bucket, 'forward raised when the input requires grad: %s' % out3)
    y_rec = _flat(*out3)
    if y_rec.shape != y_impl.shape or not core.close(y_rec, y_impl, (4 * core.EPS32 if f32 else 1e-13) * scale2)[0]:
        r.fail('depends_on_autograd_recording:dim%d' % dim, 'coefficients differ between a plain call and a call whose input requires grad')
    # the module is used again on other data: what the dense call returned stays as it was
    lib(mod, torch.tensor(x[..., ::-1].copy() * 0.5 + 1.0, dtype=tdt))
    dwtu.returned_intact(r, out2, snap2, 'forward DWT')
    return r

LEVEL_TEXT = ('Generated-input search: for each generated configuration the whole '
              'linear operator computed by DWT1DForward/DWTForward is extracted from '
              'basis inputs and compared entrywise with PyWavelets (plus dense inputs, '
              'shapes, ordering, dtype, and the reflect-mode rejection rule in both '
              'directions). Thorough tier visits every (wavelet, mode, dim) stratum. '
              'No proof: configurations are sampled, sizes bounded (1-D <= 160, 2-D <= 20x20 '
              'for full operators).')
LEVEL_TEXT += (' Also generated: wavelet given as name / object / tuple of arrays, lists or column arrays (rescaled banks included), separate row/column wavelets, modules with a past (load_state_dict, other-precision call), amplitudes 1e-18..1e10, autograd contexts (default / no_grad / inference_mode), occasional batches of 2-4 million samples.')
LEVEL_TEXT += (' Round 10: a sibling module (other wavelet and mode) constructed and used between construction and use; custom pywt.Wavelet objects that share one name and differ in their banks.')
LEVEL_NOTE = ('Trusts PyWavelets as reference and linearity of the transform (checked by C07) '
              'to extend basis agreement to all inputs; tolerances in DESIGN.md 2.4; open known '
              'finding KF-D1-analysis (short periodization) is classified, not hidden.')
TECHNIQUE = 'property-based testing (Hypothesis), differential oracle PyWavelets on extracted operators'
