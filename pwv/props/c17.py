"""C17 - orthogonal wavelets + periodization give an orthogonal transform."""
import numpy as np
import pywt
import torch
from hypothesis import strategies as st

from pwv import core, dwtu
from pwv.core import Result, lib

ID = 'C17'
ORTHO = [w for w in dwtu.WAVES if pywt.Wavelet(w).family_name in
         ('Daubechies', 'Symlets', 'Coiflets', 'Haar')]
RULE = ('Wavelet from db1..38, sym2..20, coif1..17, haar (%d names), J in 1..4, size BUILT as '
        '(evenup(L)+2t)*2^(J-1) so every level is even and >= L (no rejection), dim 1 or 2 (in 2-D a third of the cases use a '
        'different orthogonal wavelet along the rows, 4-tuple form), mode spelled periodization or per, dense '
        'recipes. Oracles on the extracted square operator A: A^T A = I, A A^T = I, inverse operator = '
        'A^T, autograd Jacobian = A; dense: energy and inner products preserved. Non-trivial = L>=4. '
        'Distinct = configuration without seeds.' % len(ORTHO))
ASSUMPTIONS = ['tolerance 1e-9 absolute on unit-scale operators (pinned worst residual 3e-11)',
               'dmey is outside the quantifier (only approximately orthogonal)']
STRATA = {'thorough': 'every orthogonal wavelet x dim (1,2) x J (1..4 where the size cap allows)',
          'quick': ''}
LABEL_FLOORS = {'J>=2': 0.3}


def plan(tier):
    if tier == 'quick':
        return [{'n': 160} for _ in range(8)]
    units = []
    for w in ORTHO:
        for dim in (1, 2):
            for J in (1, 2, 3, 4):
                units.append({'n': 30, 'wave': w, 'dim': dim, 'J': J})
    units += [{'n': 2500} for _ in range(16)]
    return units


@st.composite
def _case(draw, unit):
    w = unit.get('wave') or draw(dwtu.wavelet_strategy(names=None).filter(lambda n: n in ORTHO)
                                 if False else st.sampled_from(
        [f for f in [[x for x in fam if x in ORTHO] for fam in dwtu.FAMILY_LISTS] if f]
    ).flatmap(st.sampled_from))
    dim = unit.get('dim') or draw(st.sampled_from([1, 1, 2]))
    L = dwtu.flen(w)
    m = dwtu.even_up(L)
    cap = 512 if dim == 1 else 64
    J = unit.get('J') or draw(st.integers(1, 4))
    while J > 1 and m * 2 ** (J - 1) > cap:
        J -= 1
    tmax = max(0, (cap // 2 ** (J - 1) - m) // 2)
    size = [(m + 2 * draw(st.integers(0, min(tmax, 6)))) * 2 ** (J - 1) for _ in range(dim)]
    w2 = None
    if dim == 2 and draw(st.integers(0, 2)) == 0:
        # a different orthogonal wavelet along the rows (4-tuple form): still an orthogonal transform
        pick = draw(st.sampled_from(ORTHO))
        w2 = pick if pick != w else ORTHO[(ORTHO.index(w) + 1 + draw(st.integers(0, len(ORTHO) - 2))) % len(ORTHO)]
        m2 = dwtu.even_up(dwtu.flen(w2))
        while J > 1 and m2 * 2 ** (J - 1) > cap:
            J -= 1
        size = [max(size[0] // 2 ** (J - 1), m) * 2 ** (J - 1) if True else size[0],
                (m2 + 2 * draw(st.integers(0, 4))) * 2 ** (J - 1)]
        size[0] = (dwtu.even_up(max(size[0] // 2 ** (J - 1), m))) * 2 ** (J - 1)
    return {'dim': dim, 'wave': w, 'wave_row': w2, 'J': J, 'size': size,
            'mode_spelling': draw(st.sampled_from(['periodization', 'periodization', 'per'])),
            'reused': draw(st.integers(0, 3)) == 0,
            'rx': draw(core.recipe_strategy()), 'ry': draw(core.recipe_strategy()),
            'k': draw(st.integers(0, 10**6))}


def strategy(unit):
    return _case(unit)


def run_case(case):
    from pytorch_wavelets import (DWT1DForward, DWT1DInverse, DWTForward,
                                  DWTInverse)
    r = Result()
    dim, w, J, size = case['dim'], case['wave'], case['J'], list(case['size'])
    L = dwtu.flen(w)
    w2 = case.get('wave_row')
    Ls = [L] if dim == 1 else [L, dwtu.flen(w2 or w)]
    for n, L_ in zip(size, Ls):
        ns, _ = dwtu.level_lengths(n, L_, 'periodization', J)
        assert all(x % 2 == 0 and x >= L_ for x in ns), (case, ns)
    r.nontrivial = L >= 4
    msp = case.get('mode_spelling', 'periodization')
    r.label('dim%d' % dim, 'J>=2' if J >= 2 else None, 'L>=20' if L >= 20 else None,
            pywt.Wavelet(w).family_name, 'separate_row_col_wavelets' if w2 else None,
            'mode_spelled_per' if msp == 'per' else None)
    if w2:
        wc, wr = pywt.Wavelet(w), pywt.Wavelet(w2)
        dec = tuple(np.array(a) for a in (wc.dec_lo, wc.dec_hi, wr.dec_lo, wr.dec_hi))
        rec = tuple(np.array(a) for a in (wc.rec_lo, wc.rec_hi, wr.rec_lo, wr.rec_hi))
    else:
        dec = rec = w
    with dwtu.default_dtype(torch.float64):
        if dim == 1:
            fwd = DWT1DForward(J=J, wave=w, mode=msp)
            inv = DWT1DInverse(wave=w, mode=msp)
        else:
            fwd = DWTForward(J=J, wave=dec, mode=msp)
            inv = DWTInverse(wave=rec, mode=msp)
            for arrs in (dec, rec):
                if isinstance(arrs, tuple):
                    for a in arrs:
                        a[...] = 7.0            # the caller reuses its arrays: the modules must own copies
        sib = dwtu.sibling(w) if (case.get('reused') and not w2) else None
        if sib is not None:
            # previous life with a sibling wavelet of the same length, then load_state_dict
            r.label('reused_module')
            fcls, icls = type(fwd), type(inv)
            f2, i2 = fcls(J=J, wave=sib, mode=msp), icls(wave=sib, mode=msp)
            xw = torch.ones([1, 2] + size, requires_grad=True)
            core.libcall(lambda: i2((lambda o_: (o_[0], list(o_[1])))(f2(xw))).sum().backward())
            try:
                f2.load_state_dict(fwd.state_dict())
                i2.load_state_dict(inv.state_dict())
                fwd, inv = f2, i2
            except RuntimeError:
                pass
    if case['k'] % 3 == 0:
        # earlier in the module's life somebody fed it float32 data (rejected or not, it must leave no trace)
        r.label('after_other_precision_call')
        dwtu.other_precision_call(fwd, [1, 1] + size, torch.float64)
        dwtu.other_precision_call(inv, None, torch.float64, lambda dt: (
            torch.ones([1, 1] + [max(2, n // 2 ** J) for n in size], dtype=dt),
            [torch.ones([1, 1] + ([] if dim == 1 else [3]) + [max(2, n // 2 ** J) for n in size], dtype=dt)]))
    ntot = int(np.prod(size))
    full = ntot <= (640 if dim == 1 else 400)
    tol = 1e-9

    def flat(out):
        return torch.cat([out[0].reshape(out[0].shape[0], -1)] +
                         [h.reshape(h.shape[0], -1) for h in out[1]], dim=1)

    if full:
        r.label('full_operator')
        X = torch.tensor(dwtu.basis(size)[:, None], requires_grad=True)
        out = core.libcall(fwd, X)
        F = flat(out)
        At = F.detach().numpy()                     # row i = A e_i  ->  A^T
        A = At.T
        if A.shape != (ntot, ntot):
            return r.fail('not_square', 'operator is %s for %d samples' % (A.shape, ntot))
        I = np.eye(ntot)
        for name, P in (('AtA', A.T @ A), ('AAt', A @ A.T)):
            okc, err = core.close(P, I, tol)
            r.metric(name + '_residual', err)
            if not okc:
                r.fail('orthogonality:' + name + ':dim%d' % dim, '%s != I: %s' %
                       (name, core.first_mismatch(P, I, tol)))
        # autograd Jacobian: cotangent e_i in batch slot i  ->  grad slot i = A^T e_i... (row i of A)
        G, = torch.autograd.grad(F, X, torch.eye(ntot, dtype=torch.float64))
        Jt = G.detach().numpy().reshape(ntot, ntot)  # slot i = J^T e_i = i-th row of J
        okc, err = core.close(Jt, A, tol)
        r.metric('jacobian_residual', err)
        if not okc:
            r.fail('jacobian:dim%d' % dim, 'autograd Jacobian != extracted operator: ' +
                   core.first_mismatch(Jt, A, tol))
        # inverse operator on basis pyramids == A^T
        shapes = [tuple(out[0].shape[2:])] + [tuple(h.shape[2:]) for h in out[1]]
        yl, yh = dwtu.split_flat(np.eye(ntot), shapes[0], shapes[1:])
        rec = core.libcall(inv, (torch.tensor(yl[:, None]), [torch.tensor(h[:, None]) for h in yh]))
        S = dwtu.to_np(rec).reshape(ntot, -1).T       # column i = S e_i
        okc, err = core.close(S, A.T, tol)
        r.metric('inverse_minus_transpose', err)
        if not okc:
            r.fail('inverse_is_transpose:dim%d' % dim, 'inverse operator != A^T: ' +
                   core.first_mismatch(S, A.T, tol))
    # dense: energy, inner product, backprop of g == inverse applied to g
    x = core.make(case['rx'], [2, 2] + size)
    y = core.make(case['ry'], [2, 2] + size)
    tx = torch.tensor(x, requires_grad=True)
    ox = core.libcall(fwd, tx)
    oy = core.libcall(fwd, torch.tensor(y))
    fx, fy = flat(ox), flat(oy).detach()
    ex, ec = float((x ** 2).sum()), float((fx.detach().numpy() ** 2).sum())
    if abs(ex - ec) > 1e-10 * max(ex, 1e-300):
        r.fail('energy:dim%d' % dim, '||x||^2=%.17g but sum of coefficient energies=%.17g' % (ex, ec))
    r.metric('energy_rel', abs(ex - ec) / max(ex, 1e-300))
    ip, ipc = float((x * y).sum()), float((fx.detach().numpy() * fy.numpy()).sum())
    scale = np.sqrt(ex * float((y ** 2).sum()))
    if abs(ip - ipc) > 1e-10 * max(scale, 1e-300):
        r.fail('inner_product:dim%d' % dim, '<x,y>=%.17g, <Tx,Ty>=%.17g' % (ip, ipc))
    # back-propagating the cotangent T(y) equals applying the inverse to it
    gx, = torch.autograd.grad(fx, tx, fy)
    rec = core.libcall(inv, (oy[0].detach(), [h.detach() for h in oy[1]]))
    # and the other way round: back-propagating a cotangent c through the inverse gives the forward transform of c,
    # band by band, whichever bands require grad (here: the highpasses only, then everything)
    for with_low in (False, True):
        pl = oy[0].detach().clone().requires_grad_(with_low)
        ph = [h.detach().clone().requires_grad_(True) for h in oy[1]]
        recx = core.libcall(inv, (pl, ph))
        cshape = recx.shape
        cot = torch.tensor(core.make(case['rx'], list(cshape)))
        ins = ([pl] if with_low else []) + ph
        ok, gs = lib(torch.autograd.grad, recx, ins, cot, allow_unused=True)
        if not ok:
            r.fail('inverse_backward_raise', 'backward through the inverse raised: %s' % gs)
            break
        fc = core.libcall(fwd, cot[..., :size[0]] if dim == 1 else cot[..., :size[0], :size[1]])
        wants = ([fc[0]] if with_low else []) + list(fc[1])
        for gi, wi in zip(gs, wants):
            if gi is None:
                r.fail('inverse_backward_none', 'a coefficient band requiring grad received None from the inverse '
                       '(lowpass requires grad: %s)' % with_low)
                break
            if gi.shape != wi.shape or float((gi - wi.detach()).abs().max()) > 1e-9 * max(core.maxabs(cot.numpy()), 1e-300):
                r.fail('inverse_backward_is_forward:dim%d' % dim, 'backward through the inverse is not the forward '
                       'transform of the cotangent (lowpass requires grad: %s)' % with_low)
                break
    okc, err = core.close(gx.numpy(), rec.numpy(), 1e-9 * max(core.maxabs(y), 1e-300))
    if not okc:
        r.fail('backprop_is_inverse:dim%d' % dim, 'backward(g) != inverse(g): ' +
               core.first_mismatch(gx.numpy(), rec.numpy(), 1e-9 * max(core.maxabs(y), 1e-300)))
    return r


LEVEL_TEXT = ('Generated-input search over orthogonal wavelets, level counts and admissible sizes; for each '
              'configuration the square operator is extracted and A^T A = A A^T = I, inverse = A^T and '
              'autograd Jacobian = A are checked entrywise (all inputs of that configuration), plus energy / '
              'inner-product preservation on dense inputs. Thorough tier visits every orthogonal wavelet.')
LEVEL_TEXT += (' Also generated: separate orthogonal row/column wavelets, mode spelled per, modules with a past, back-propagation through the inverse for gradient subsets, overwritten caller arrays.')
LEVEL_NOTE = 'Sampled sizes (1-D <= 512, 2-D <= 64 per axis, full matrices up to 640 / 400 samples); float64, tol 1e-9.'
TECHNIQUE = 'property-based testing (Hypothesis), algebraic invariants on extracted operators'
