"""C02 - DWT synthesis inverts analysis (perfect reconstruction)."""
import numpy as np
import torch
from hypothesis import strategies as st

from pwv import core, dwtu
from pwv.core import Result, lib
from pwv.props import c01

ID = 'C02'
RULE = ('Same generator as C01 (dim, wavelet, mode, J, sizes around filter length / '
        'odd / powers of two, N, C, dtype, content recipes). Oracle: round trip '
        'inverse(forward(.)) cropped to the input extent equals the identity on all basis '
        'inputs (operator identity) and on dense inputs; output length per axis in {n, n+1} '
        'and equal to PyWavelets waverec(wavedec) length; error bounded by PyWavelets own '
        'round-trip error on the same input (covers dmey). Non-trivial = J>=2 or odd size '
        'or filter length >= 6.')
ASSUMPTIONS = ['PyWavelets round-trip error is the yardstick for approximately-PR wavelets',
               'tolerance 1e-9*max(1,gain) float64, 256*eps32*gain float32']
STRATA = {'thorough': 'every (wavelet, mode, dim) combination: 106 x 5 x 2', 'quick': ''}
LABEL_FLOORS = {'odd': 0.25, 'J>=2': 0.3}
plan = c01.plan
def strategy(unit):
    return c01._case(unit)


def _modules(case):
    from pytorch_wavelets import (DWT1DForward, DWT1DInverse, DWTForward,
                                  DWTInverse)
    msp = case.get('mode_spelling', case['mode'])
    sib = dwtu.sibling(case['wave']) if (case.get('reused') and not case.get('wave_row') and case['mode'] != 'reflect') else None
    if sib is not None:
        # both modules had a previous life with a sibling wavelet of the same length
        fcls, icls = (DWT1DForward, DWT1DInverse) if case['dim'] == 1 else (DWTForward, DWTInverse)
        with dwtu.default_dtype(dwtu.tdt(case['dtype'])):
            def warm(m):
                n = max(case['size']) + 2 * dwtu.flen(case['wave'])
                x = torch.ones([1, case['C']] + [n] * case['dim'], requires_grad=True)
                yl, yh = m(x)
                (yl.sum() + sum(h.sum() for h in yh)).backward()
                return yl, yh
            fwd = dwtu.reused_module(lambda: fcls(J=case['J'], wave=c01.wave_arg(case), mode=msp),
                                     lambda: fcls(J=case['J'], wave=sib, mode=msp), warm)

            def warm_inv(m):
                f0 = fcls(J=1, wave=sib, mode=msp)
                n = max(case['size']) + 2 * dwtu.flen(case['wave'])
                yl, yh = f0(torch.ones([1, case['C']] + [n] * case['dim']))
                yl.requires_grad_(True)
                m((yl, yh)).sum().backward()
            inv = dwtu.reused_module(lambda: icls(wave=c01.wave_arg(case, 'rec'), mode=msp),
                                     lambda: icls(wave=sib, mode=msp), warm_inv)
        return fwd, inv
    with dwtu.default_dtype(dwtu.tdt(case['dtype'])):
        wa, wr_ = c01.wave_arg(case), c01.wave_arg(case, 'rec')
        if case['dim'] == 1:
            out = (DWT1DForward(J=case['J'], wave=wa, mode=msp), DWT1DInverse(wave=wr_, mode=msp))
        else:
            out = (DWTForward(J=case['J'], wave=wa, mode=msp), DWTInverse(wave=wr_, mode=msp))
        c01.scribble(wa)
        c01.scribble(wr_)
        return out


def run_case(case):
    with core.grad_ctx(case.get('ctx')):
        r = _run_case(case)
    return r.label('ctx_' + case['ctx']) if case.get('ctx', 'default') != 'default' else r


def _run_case(case):
    r = Result()
    dim, w, mode, J = case['dim'], case['wave'], case['mode'], case['J']
    size = list(case['size'])
    L = dwtu.flen(w)
    f32 = case['dtype'] == 'f32'
    Ls = c01.axis_lens(case)
    per_axis = [dwtu.level_lengths(n, L_, mode, J) for n, L_ in zip(size, Ls)]
    in_d1a = any(dwtu.d1_analysis(ns, L_, mode) for (ns, _), L_ in zip(per_axis, Ls))
    in_d1s = any(dwtu.d1_synthesis(ks, L_, mode) for (_, ks), L_ in zip(per_axis, Ls))
    may_raise = any(dwtu.reflect_may_raise(ns, L_, mode) for (ns, _), L_ in zip(per_axis, Ls))
    L = max(Ls)
    r.label('dim%d' % dim, mode, 'f32' if f32 else 'f64',
            'odd' if any(n % 2 for n in size) else None,
            'short<L' if any(n < L_ for n, L_ in zip(size, Ls)) else None,
            'separate_row_col_wavelets' if case.get('wave_row') else None,
            'J>=2' if J >= 2 else None, 'L>=20' if L >= 20 else None,
            'approx_PR(dmey)' if w == 'dmey' else None,
            'reused_module' if case.get('reused') and not case.get('wave_row') and dwtu.sibling(w) else None,
            'in_D1_predicate' if (in_d1a or in_d1s) else None)
    r.nontrivial = J >= 2 or any(n % 2 for n in size) or L >= 6
    fwd, inv = _modules(case)
    tdt = dwtu.tdt(case['dtype'])
    if case['k'] % 3 == 0:
        r.label('after_other_precision_call')
        dwtu.other_precision_call(fwd, [1, 1] + size, tdt)
        dwtu.other_precision_call(inv, None, tdt, lambda dt: (
            torch.ones([1, 1] + [4] * dim, dtype=dt), [torch.ones([1, 1] + ([] if dim == 1 else [3]) + [4] * dim, dtype=dt)]))

    def mismatch(what, msg):
        if in_d1a and core.kf_open('KF-D1-analysis', ID):
            r.known('KF-D1-analysis', msg)
        elif in_d1s and core.kf_open('KF-D1-synthesis', ID):
            r.known('KF-D1-synthesis', msg)
        else:
            r.fail('%s:%s:dim%d' % (what, mode, dim), msg)

    rw = c01.ref_wavelet(case)
    r.label('rescaled_filter_bank' if case.get('wave_form') in ('tuple', 'object') and case.get('fb_scale', [1.0, 1.0]) != [1.0, 1.0]
            else None)

    def pywt_roundtrip(x):
        if dim == 1:
            return dwtu.ref_waverec(*dwtu.ref_wavedec(x, rw, mode, J), rw, mode)
        c = __import__('pywt').wavedec2(x, rw, mode=mode, level=J, axes=(-2, -1))
        return __import__('pywt').waverec2(c, rw, mode=mode, axes=(-2, -1))

    ntot = int(np.prod(size))
    M, full = dwtu.basis_rows(ntot, case['k'], cap=dwtu.op_cap(dim, L))
    B = M.reshape([M.shape[0]] + size)
    r.label('full_operator' if full else 'operator_column_subset')
    x = core.make(case['rx'], [case['N'], case['C']] + size)
    if f32:
        x = x.astype(np.float32).astype(np.float64)
    for name, inp in (('operator', B[:, None]), ('dense', x)):
        ok, out = lib(fwd, torch.tensor(inp, dtype=tdt))
        if not ok:
            if may_raise:
                r.allowed_rejection = True
                r.label('rejected_reflect_short')
                return r
            return r.fail(out.bucket, 'forward raised: %s' % out)
        yl, yh = out
        ok, rec = lib(inv, (yl, list(yh)))
        if not ok:
            return r.fail(rec.bucket, 'inverse raised on the output of forward: %s' % rec)
        if rec.dtype != tdt:
            return r.fail('dtype', 'reconstruction dtype %s, input %s' % (rec.dtype, tdt))
        ref = pywt_roundtrip(inp[:, 0] if name == 'operator' else inp)
        got_sz = list(rec.shape[-dim:])
        ref_sz = list(ref.shape[-dim:])
        if any(g not in (n, n + 1) for g, n in zip(got_sz, size)) or got_sz != ref_sz:
            mismatch('length', 'reconstruction size %s for input %s (PyWavelets %s)'
                     % (got_sz, size, ref_sz))
            continue
        recn = dwtu.crop(dwtu.to_np(rec), size)
        e_ref = core.maxabs(dwtu.crop(ref, size) - (inp[:, 0] if name == 'operator' else inp))
        scale = max(1.0, core.maxabs(inp)) if name == 'operator' else max(core.maxabs(inp), 1e-300)
        tol = e_ref * (1 + 1e-6) + (256 * core.EPS32 if f32 else 1e-9) * scale * \
            (np.sqrt(2.0) ** (J * dim) if f32 else 1.0)
        okc, err = core.close(recn, inp, tol)
        r.metric('roundtrip_err_%s_%s' % (name, case['dtype']), err / scale)
        if not okc:
            mismatch('pr_' + name, 'round trip is not the identity (%s): %s; '
                     'PyWavelets own error %.3g' % (name, core.first_mismatch(recn, inp, tol), e_ref))
    return r


LEVEL_TEXT = ('Generated-input search: crop(inverse(forward(e_i))) = e_i for every basis input of '
              'each generated configuration (an operator identity, so it extends to all inputs of that '
              'configuration by linearity), plus dense inputs, output-length rule and dtype; error '
              'measured against PyWavelets own round-trip error so approximately-PR wavelets are '
              'held to "no worse than PyWavelets". Thorough tier visits all 106 x 5 x 2 strata.')
LEVEL_TEXT += (' Also generated: the filter forms, module histories, amplitude scales and autograd contexts of C01.')
LEVEL_TEXT += (' Round 10: custom same-name pywt.Wavelet objects with rescaled banks.')
LEVEL_NOTE = ('Sampled configurations with bounded sizes; trusts PyWavelets for the length rule and '
              'the dmey yardstick; KF-D1 (short periodization) classified as known finding.')
TECHNIQUE = 'property-based testing (Hypothesis), round-trip oracle on extracted operators'
