"""C08 - scattering layers compute the defined DTCWT scattering coefficients."""
import numpy as np
import torch
from hypothesis import strategies as st

from pwv import core, dwtu, dtu, scatu
from pwv.core import Result, lib

ID = 'C08'
RULE = ('Hypothesis draws (order 1/2, filter family incl. band-pass variants, magnitude bias from {0,1e-6,1e-3,1e-2,1,10} or a '
        'generated float, combine_colour, N in 1..3, C (3 with colour), H,W in 2..40, input recipe incl. all-zero / sparse / oriented gratings / '
        '1e+-4 scaling / constant; for second-order sizes that are not multiples of 8 an edge-constant image so that every '
        '"repeat the border" extension coincides). Oracle: the reference dtcwt.numpy transform composed with the formulas of '
        'the statement in float64 (full value comparison on even sizes / multiples of 8, on the last-row/column-repeated '
        'image for odd first-order sizes, on the edge-extended image for other second-order sizes), output shape, finiteness, '
        'magnitude channels >= -2*eps*bias. Non-trivial = non-zero input and (odd/non-multiple size or colour or band-pass '
        'family or bias != 1e-2). Distinct = configuration without seeds.')
ASSUMPTIONS = ['the NumPy dtcwt package composed with the stated formulas is the reference',
               'tolerance 1e-11*(gain*max|x| + bias) with gain 8 per DTCWT stage (magnitude and pooling are 1-Lipschitz)']
STRATA = {'thorough': 'order x family x colour', 'quick': ''}
LABEL_FLOORS = {'order2': 0.3, 'order1': 0.3, 'colour': 0.2}


def plan(tier):
    if tier == 'quick':
        return [{'n': 120} for _ in range(16)]
    units = [{'n': 200, 'order': 1, 'biort': b, 'colour': c} for b in scatu.BIORTS1 for c in (False, True)]
    units += [{'n': 120, 'order': 2, 'biort': b, 'qshift': q, 'colour': c}
              for b, q in [(b, q) for b in ['near_sym_a', 'near_sym_b', 'antonini', 'legall'] for q in scatu.QSHIFTS2] +
              [('near_sym_b_bp', 'qshift_b_bp')] for c in (False, True)]
    units += [{'n': 3000} for _ in range(16)]
    return units


@st.composite
def _case(draw, unit):
    order = unit.get('order') or draw(st.sampled_from([1, 2]))
    if unit.get('biort'):
        b, q = unit['biort'], unit.get('qshift')
    else:
        b, q = draw(scatu.family_strategy(order))
    colour = unit['colour'] if 'colour' in unit else draw(st.sampled_from([False, False, True]))
    capS = 136 if draw(st.integers(0, 24)) == 0 else 40       # occasionally far beyond the usual sizes
    if order == 1:
        size = [draw(dtu.size_strategy(capS)), draw(dtu.size_strategy(capS))]
    else:
        sz = st.one_of(st.integers(1, capS // 8).map(lambda k: 8 * k), st.integers(2, capS))
        size = [draw(sz), draw(sz)]
    return {'order': order, 'biort': b, 'qshift': q, 'colour': colour, 'bias': draw(scatu.bias_strategy()),
            'N': draw(st.sampled_from([1, 2, 3, 3, 5])), 'C': 3 if colour else draw(st.sampled_from([1, 2, 3, 3, 6])),
            'eval': draw(st.integers(0, 3)) == 0, 'ctx': draw(st.sampled_from(core.GRAD_CTXS)),
            'size': size,
            'rx': draw(core.recipe_strategy(kinds=['gaussian', 'gaussian', 'gaussian', 'sparse', 'constant', 'zeros',
                                                   'ramp', 'spike', 'ints', 'grating', 'grating'], scales=(0, 0, 0, 4, -4)))}


def strategy(unit):
    return _case(unit)


def edge_constant(recipe, N, C, H, W):
    """An image whose outer 4 rows/columns repeat the border of a generated core."""
    hi, wi = max(1, H - 8), max(1, W - 8)
    core_img = core.make(recipe, [N, C, hi, wi])
    pt, pl = (H - hi) // 2, (W - wi) // 2
    return np.pad(core_img, ((0, 0), (0, 0), (pt, H - hi - pt), (pl, W - wi - pl)), mode='edge')


def _make_layer(case, dtype=torch.float64):
    from pytorch_wavelets import ScatLayer, ScatLayerj2
    with dwtu.default_dtype(dtype):
        if case['order'] == 1:
            return ScatLayer(biort=case['biort'], magbias=case['bias'], combine_colour=case['colour'],
                             mode=case.get('mode', 'symmetric'))
        return ScatLayerj2(biort=case['biort'], qshift=case['qshift'], magbias=case['bias'],
                           combine_colour=case['colour'])


def make_layer(case, dtype=torch.float64):
    layer = _make_layer(case, dtype)
    if case.get('eval'):
        layer.eval()            # the layers have no train/eval distinction: nothing may change
    return layer


def reference(case, x, any_split=False):
    """Reference output(s) for x: list of acceptable arrays. any_split: accept every way of distributing the
    repeated border rows/columns (used only where the pinned code cannot run at all, finding D10, so that a
    future repair is not tied to one particular split)."""
    H, W = x.shape[-2:]
    b, colour = case['bias'], case['colour']
    if case['order'] == 1:
        xe = np.pad(x, ((0, 0), (0, 0), (0, H % 2), (0, W % 2)), mode='edge')
        return [scatu.ref_scat1(case['biort'], xe, b, colour)]
    outs = []
    rh, rw = H % 8, W % 8
    splits_h = [(0, 0)] if rh == 0 else [((8 - rh) // 2, (9 - rh) // 2), ((9 - rh) // 2, (8 - rh) // 2)]
    splits_w = [(0, 0)] if rw == 0 else [((8 - rw) // 2, (9 - rw) // 2), ((9 - rw) // 2, (8 - rw) // 2)]
    if any_split:
        splits_h = [(0, 0)] if rh == 0 else [(a, 8 - rh - a) for a in range(0, 9 - rh)]
        splits_w = [(0, 0)] if rw == 0 else [(a, 8 - rw - a) for a in range(0, 9 - rw)]
    for sh in dict.fromkeys(splits_h):
        for sw in dict.fromkeys(splits_w):
            xe = np.pad(x, ((0, 0), (0, 0), sh, sw), mode='edge')
            outs.append(scatu.ref_scat2(case['biort'], case['qshift'], xe, b, colour))
    return outs


def expected_shape(case, N, C, H, W):
    if case['order'] == 1:
        return (N, C + 6 if case['colour'] else 7 * C, (H + H % 2) // 2, (W + W % 2) // 2)
    return (N, 51 if case['colour'] else 49 * C, 2 * (-(-H // 8)), 2 * (-(-W // 8)))


def run_case(case):
    r = Result()
    order, colour, bias = case['order'], case['colour'], case['bias']
    H, W = case['size']
    N, C = case['N'], case['C']
    bp = case['biort'] == 'near_sym_b_bp'
    multiple = (H % 2 == 0 and W % 2 == 0) if order == 1 else (H % 8 == 0 and W % 8 == 0)
    kf10 = order == 2 and (H == 2 or W == 2)
    if order == 2 and not multiple:
        x = edge_constant(case['rx'], N, C, H, W)
        r.label('edge_constant_input')
    else:
        x = core.make(case['rx'], [N, C, H, W])
    nonzero = bool(np.any(x))
    r.label('order%d' % order, 'colour' if colour else None, 'bandpass_family' if bp else None,
            'size_multiple' if multiple else 'size_extended', 'bias0' if bias == 0 else None,
            'zero_input' if not nonzero else None, 'kind_' + case['rx']['kind'])
    r.nontrivial = nonzero and (not multiple or colour or bp or bias != 1e-2)
    layer = make_layer(case)
    r.label('eval_mode' if case.get('eval') else None, 'ctx_' + case['ctx'] if case.get('ctx', 'default') != 'default' else None)
    with core.grad_ctx(case.get('ctx')):
        ok, out = lib(layer, torch.tensor(x))
    if not ok:
        if kf10 and core.kf_open('KF-D10', ID):
            return r.known('KF-D10', 'ScatLayerj2 raised on H or W == 2: %s' % out)
        return r.fail(out.bucket, 'scattering layer raised: %s' % out)
    z = out.detach().numpy()
    exp = expected_shape(case, N, C, H, W)
    if tuple(z.shape) != exp:
        return r.fail('shape:order%d' % order, 'output shape %s, documented %s' % (tuple(z.shape), exp))
    if out.dtype != torch.float64:
        r.fail('dtype', 'output dtype %s' % out.dtype)
    if not np.all(np.isfinite(z)):
        return r.fail('nonfinite:order%d' % order, 'output contains non-finite values')
    g = 8.0 if order == 1 else 64.0
    tol = core.TOL64 * (g * core.maxabs(x) + bias) + 1e-300
    refs = reference(case, x, any_split=kf10)
    allrefs = list(refs)
    errs = []
    for ref in refs:
        okc, err = core.close(z, ref, tol)
        errs.append(err)
        if okc:
            break
    else:
        if order == 2 and not multiple and not kf10:
            # not the pinned split of the repeated border rows/columns: before calling it a violation, accept any
            # other way of distributing them (the property only asks for "extended by repeating border rows/columns")
            refs = reference(case, x, any_split=True)
            allrefs += refs
            for ref in refs:
                okc, err = core.close(z, ref, tol)
                errs.append(err)
                if okc:
                    r.label('other_border_split_accepted')
                    break
    if not any(e <= tol for e in errs):
        i = int(np.argmin(errs))
        r.fail('values:order%d%s%s' % (order, ':colour' if colour else '', ':bp' if bp else ''),
               'differs from the reference composition: ' + core.first_mismatch(z, allrefs[i], tol))
    r.metric('abs_err_over_scale', min(errs) / max(g * core.maxabs(x) + bias, 1e-300))
    # the same call while autograd is recording must give the same numbers
    ok, outg = lib(layer, torch.tensor(x).requires_grad_(True))
    if not ok:
        r.fail(outg.bucket, 'scattering layer raised when the input requires grad: %s' % outg)
    else:
        zg = outg.detach().numpy()
        if zg.shape != z.shape or not core.close(zg, z, 1e-12 * (g * core.maxabs(x) + bias) + 1e-300)[0]:
            r.fail('depends_on_autograd_recording:order%d' % order, 'the output differs between a plain call and a call '
                   'whose input requires grad: ' + (core.first_mismatch(zg, z, 1e-12 * (g * core.maxabs(x) + bias) + 1e-300)
                                                    if zg.shape == z.shape else 'shapes %s vs %s' % (zg.shape, z.shape)))
    mask = scatu.magnitude_mask(order, C, colour, z.shape[1])
    zm = z[:, mask]
    if zm.size and zm.min() < -2 * core.EPS64 * max(bias, 0.0) - 0.0:
        r.fail('negative_magnitude:order%d' % order, 'a magnitude channel is %.3g < 0' % zm.min())
    return r


LEVEL_TEXT = ('Generated-input search over both layers, all filter families (band-pass variants included), magnitude biases '
              '(0 included), colour combination, batch/channel counts, sizes 2..40 and input kinds (zero, sparse, constant, '
              'scaled): outputs are compared value by value with the reference NumPy DTCWT composed with the formulas of the '
              'property, plus documented shape, finiteness and non-negativity of every magnitude channel.')
LEVEL_TEXT += (' Also generated: eval() mode, autograd contexts, the same call with an input requiring grad (same numbers), oriented gratings.')
LEVEL_NOTE = ('Trusts dtcwt 0.14 and the stated formulas; for second-order sizes that are not multiples of 8 values are compared '
              'only on edge-constant images (either split of the extension accepted); known finding KF-D10 (H or W == 2).')
TECHNIQUE = 'property-based testing (Hypothesis), reference-model oracle (NumPy dtcwt + closed-form scattering formulas)'
