"""C09 - scattering layers back-propagate the true gradient, finite everywhere."""
import numpy as np
import torch
import torch.nn.functional as F
from hypothesis import strategies as st

from pwv import core, dwtu, scatu
from pwv.core import Result, lib
from pwv.props import c08

ID = 'C09'
RULE = ('Hypothesis draws (order 1/2, filter family incl. band-pass, positive magnitude bias, colour, N, C, H,W in 2..24, input '
        'recipe incl. all-zero / sparse / constant and scales 1e-30..1e30, padding mode (symmetric, or zero for the first-order layer), cotangent recipe, contiguous or permuted cotangent, memory layout of the input leaf (contiguous, transposed view, channels_last, NHWC-permuted, cropped view), '
        'dtype for the finiteness part). Oracles, always against the function the forward pass computed: (a) central finite '
        'differences along 4 generated directions in float64 (bias >= 1e-3, unit-scale inputs); (b) torch autograd through a '
        'recomposition of the same forward from differentiable primitives (conv-based fwd_j1/fwd_j2plus, avg_pool2d, sqrt), used '
        'only when it reproduces the layer output to 1e-12; (c) every gradient entry finite in float32 and float64; (d) '
        'SmoothMagFn against autograd of sqrt(x^2+y^2+b^2)-b for the three grad subsets. Non-trivial = non-zero cotangent on >= 2 '
        'band groups. Distinct = configuration without seeds.')
ASSUMPTIONS = ['finite differences: h = 1e-6*(max|x|+b), relative tolerance 1e-4 plus an absolute floor 1e-7*sum|g|*max|v|',
               'exact oracle tolerance 1e-9*(sum|g|*gain) float64', 'torch autograd of conv2d/sqrt/avg_pool2d is trusted']
STRATA = {'thorough': 'order x family x colour', 'quick': ''}
LABEL_FLOORS = {'order2': 0.3, 'order1': 0.3, 'exact_oracle_used': 0.5}


def plan(tier):
    if tier == 'quick':
        return [{'n': 60} for _ in range(16)]
    units = [{'n': 200, 'order': 1, 'biort': b, 'colour': c} for b in scatu.BIORTS1 for c in (False, True)]
    units += [{'n': 120, 'order': 2, 'biort': b, 'qshift': q, 'colour': c}
              for b, q in [(b, q) for b in ['near_sym_a', 'near_sym_b', 'antonini', 'legall'] for q in scatu.QSHIFTS2] +
              [('near_sym_b_bp', 'qshift_b_bp')] for c in (False, True)]
    units += [{'n': 2500} for _ in range(16)]
    return units


@st.composite
def _case(draw, unit):
    order = unit.get('order') or draw(st.sampled_from([1, 2]))
    if unit.get('biort'):
        b, q = unit['biort'], unit.get('qshift')
    else:
        b, q = draw(scatu.family_strategy(order))
    colour = unit['colour'] if 'colour' in unit else draw(st.sampled_from([False, False, True]))
    sz = st.one_of(st.integers(1, 3).map(lambda k: 8 * k), st.integers(3 if order == 2 else 2, 24))
    case = {'order': order, 'biort': b, 'qshift': q, 'colour': colour, 'bias': draw(scatu.bias_strategy(positive=True)),
            'N': draw(st.sampled_from([1, 2])), 'C': 3 if colour else draw(st.sampled_from([1, 2])),
            'eval': draw(st.integers(0, 3)) == 0,
            'size': [draw(sz), draw(sz)],
            'rx': draw(core.recipe_strategy(kinds=['gaussian', 'gaussian', 'sparse', 'constant', 'zeros', 'ramp', 'spike', 'grating'],
                                            scales=(0, 0, 0, 0, 4, -4, 30, -30, -7, -9))),
            'rg': draw(core.recipe_strategy(kinds=['gaussian', 'gaussian', 'sparse', 'spike', 'constant', 'contrast', 'contrast', 'ints'], scales=(0,))),
            'mode': draw(st.sampled_from(['symmetric', 'symmetric', 'zero'])) if order == 1 else 'symmetric',
            'permuted_cotangent': draw(st.booleans()), 'k': draw(st.integers(0, 10**6)),
            # memory layout of the leaf the gradient is asked for (the same numbers in every layout)
            'x_layout': draw(st.sampled_from(['contiguous', 'contiguous', 'transposed_view', 'channels_last', 'nhwc_permuted', 'cropped_view']))}
    if case['rx']['scale'] in (-7, -9) and draw(st.booleans()):
        # low-amplitude data with a bias of the same order (any magbias > 0 is in the property's domain)
        case['bias'] = draw(st.sampled_from([1e-7, 1e-8, 1e-10]))
    return case


def strategy(unit):
    return _case(unit)


def corpus():
    """The all-zero image for every family (the plain modulus is not differentiable there)."""
    out = []
    z = {'kind': 'zeros', 'seed': 0, 'scale': 0}
    g = {'kind': 'gaussian', 'seed': 1, 'scale': 0}
    for b in scatu.BIORTS1:
        out.append({'order': 1, 'biort': b, 'qshift': None, 'colour': False, 'bias': 1e-2, 'N': 1, 'C': 1, 'size': [8, 8],
                    'rx': z, 'rg': g, 'permuted_cotangent': False, 'k': 0})
    for b, q in [('near_sym_a', 'qshift_a'), ('near_sym_b', 'qshift_b'), ('near_sym_b_bp', 'qshift_b_bp')]:
        for colour in (False, True):
            out.append({'order': 2, 'biort': b, 'qshift': q, 'colour': colour, 'bias': 1e-3, 'N': 1, 'C': 3 if colour else 1,
                        'size': [8, 16], 'rx': z, 'rg': g, 'permuted_cotangent': True, 'k': 0})
    return out


def _mag(re, im, b, colour):
    if colour:
        return torch.sqrt((re ** 2 + im ** 2).sum(dim=2, keepdim=True) + b ** 2) - b
    return torch.sqrt(re ** 2 + im ** 2 + b ** 2) - b


def recompose(layer, x, order):
    """The layer's forward written out of differentiable primitives only (no autograd.Function)."""
    from pytorch_wavelets.dtcwt import transform_funcs as tf
    b, colour = layer.magbias, layer.combine_colour
    mode = layer.mode_str
    bp = layer.bandpass_diag
    N = x.shape[0]

    def j1(t):
        if bp:
            return tf.fwd_j1_rot(t, layer.h0o, layer.h1o, layer.h2o, False, 1, mode)
        return tf.fwd_j1(t, layer.h0o, layer.h1o, False, 1, mode)

    def j2(t):
        if bp:
            return tf.fwd_j2plus_rot(t, layer.h0a, layer.h1a, layer.h0b, layer.h1b, layer.h2a, layer.h2b, False, 1, mode)
        return tf.fwd_j2plus(t, layer.h0a, layer.h1a, layer.h0b, layer.h1b, False, 1, mode)
    if order == 1:
        r_, c_ = x.shape[2:]
        if r_ % 2:
            x = torch.cat((x, x[:, :, -1:]), dim=2)
        if c_ % 2:
            x = torch.cat((x, x[:, :, :, -1:]), dim=3)
        ll, re, im = j1(x)
        ll = F.avg_pool2d(ll, 2)
        m = _mag(re, im, b, colour)
        if colour:
            return torch.cat((ll, m[:, :, 0]), dim=1)
        Z = torch.cat((ll[:, None], m), dim=1)
        return Z.reshape(N, -1, Z.shape[-2], Z.shape[-1])
    r_, c_ = x.shape[2:]
    rem = r_ % 8
    if rem:
        x = torch.cat((x[:, :, :(8 - rem) // 2], x, x[:, :, -((9 - rem) // 2):]), dim=2)
    rem = c_ % 8
    if rem:
        x = torch.cat((x[:, :, :, :(8 - rem) // 2], x, x[:, :, :, -((9 - rem) // 2):]), dim=3)
    s0, re, im = j1(x)
    m1 = _mag(re, im, b, colour)                      # (N,6,C|1,h,w)
    s0, re, im = j2(s0)
    m2 = _mag(re, im, b, colour)
    s0 = F.avg_pool2d(s0, 2)
    p = m1.shape
    s1 = m1[:, :, 0] if colour else m1.reshape(p[0], 6 * p[2], p[3], p[4])
    s1l, re, im = j1(s1)
    s2 = torch.sqrt(re ** 2 + im ** 2 + b ** 2) - b      # (N,6,6|6C,h/2,w/2)
    s1l = F.avg_pool2d(s1l, 2)
    if colour:
        s2 = s2.reshape(p[0], 36, s2.shape[-2], s2.shape[-1])
        return torch.cat((s0, s1l, m2[:, :, 0], s2), dim=1)
    s2 = s2.reshape(p[0], 36, p[2], s2.shape[-2], s2.shape[-1])
    s1l = s1l.reshape(p[0], 6, p[2], s1l.shape[-2], s1l.shape[-1])
    Z = torch.cat((s0[:, None], s1l, m2, s2), dim=1)
    return Z.reshape(p[0], 49 * p[2], Z.shape[-2], Z.shape[-1])


def _loss(Z, g, permuted):
    if permuted:
        return (Z.permute(0, 1, 3, 2) * g.permute(0, 1, 3, 2)).sum()
    return (Z * g).sum()


def _leaf(x, layout):
    """A leaf tensor with the values of x that requires grad, in the requested memory layout."""
    if layout == 'transposed_view':
        t = torch.tensor(np.ascontiguousarray(x.transpose(0, 1, 3, 2))).transpose(-1, -2)
    elif layout == 'channels_last':
        t = torch.tensor(x).contiguous(memory_format=torch.channels_last)
    elif layout == 'nhwc_permuted':
        t = torch.tensor(np.ascontiguousarray(x.transpose(0, 2, 3, 1))).permute(0, 3, 1, 2)
    elif layout == 'cropped_view':
        big = torch.zeros(x.shape[0], x.shape[1], x.shape[2] + 3, x.shape[3] + 2, dtype=torch.float64)
        big[:, :, 1:1 + x.shape[2], 2:] = torch.tensor(x)
        t = big[:, :, 1:1 + x.shape[2], 2:]
    else:
        t = torch.tensor(x)
    assert np.array_equal(t.detach().numpy(), x)
    return t.requires_grad_(True)


def run_case(case):
    r = Result()
    order, colour, bias = case['order'], case['colour'], case['bias']
    H, W = case['size']
    N, C = case['N'], case['C']
    r.label('order%d' % order, 'colour' if colour else None, 'bandpass_family' if case['biort'] == 'near_sym_b_bp' else None,
            'kind_' + case['rx']['kind'], 'scale%+d' % case['rx']['scale'] if case['rx']['scale'] else None,
            'mode_' + case.get('mode', 'symmetric'),
            'permuted_cotangent' if case['permuted_cotangent'] else None,
            'size_extended' if ((H % 2 or W % 2) if order == 1 else (H % 8 or W % 8)) else None)
    if order == 2 and (H == 2 or W == 2):
        return r.skip('KF-D10 domain (C08)')
    x = core.make(case['rx'], [N, C, H, W])
    layer = c08.make_layer(case)
    xt = _leaf(x, case.get('x_layout', 'contiguous'))
    r.label('x_' + case.get('x_layout', 'contiguous') if case.get('x_layout', 'contiguous') != 'contiguous' else None,
            'x_noncontiguous' if not xt.is_contiguous() else None)
    ok, Z = lib(layer, xt)
    if not ok:
        return r.fail(Z.bucket, 'forward raised: %s' % Z)
    gz = core.make(case['rg'], tuple(Z.shape))
    ngroups = (gz[:, :C].any() + gz[:, C:].any()) if order == 1 else sum(
        bool(gz[:, a:b_].any()) for a, b_ in ((0, 3), (3, 9), (9, 15), (15, 51)) if a < gz.shape[1])
    r.nontrivial = bool(gz.any()) and ngroups >= 2
    g = torch.tensor(gz)
    if case['permuted_cotangent']:
        ok, G = lib(torch.autograd.grad, _loss(Z, g, True), xt, retain_graph=True)
    else:
        # the cotangent handed over as a tensor of the caller: it must come back untouched
        ok, G = lib(torch.autograd.grad, Z, xt, g, retain_graph=True)
        if ok and not torch.equal(g, torch.tensor(gz)):
            return r.fail('cotangent_mutated', 'the backward pass modified the cotangent tensor it was given')
    if not ok:
        return r.fail('backward_raise:' + G.bucket, 'backward raised: %s' % G)
    # a second cotangent through the same recorded graph (Jacobian rows, several losses): the map g -> grad is linear
    ok, G2 = lib(torch.autograd.grad, _loss(Z, -2.0 * g, case['permuted_cotangent']), xt)
    if not ok:
        return r.fail('second_backward_raise:' + G2.bucket, 'a second backward pass through the same graph raised: %s' % G2)
    if bool(torch.isfinite(G[0]).all()) and bool(torch.isfinite(G2[0]).all()):
        d2 = float((G2[0] + 2.0 * G[0]).abs().max())
        if d2 > 1e-9 * max(float(G[0].abs().max()), 1e-300):
            return r.fail('second_backward_differs', 'pulling back -2g through the same graph is not -2 x the pull-back of g '
                          '(max difference %.3g)' % d2)
    grad = G[0]
    if grad is None or grad.shape != xt.shape:
        return r.fail('grad_shape', 'gradient %s for input %s' % (None if grad is None else tuple(grad.shape), tuple(xt.shape)))
    if bool(torch.isfinite(Z).all()) and not bool(torch.isfinite(grad).all()):
        return r.fail('nonfinite_grad:f64', 'float64 gradient has non-finite entries (bias %g, input kind %s scale %d)' %
                      (bias, case['rx']['kind'], case['rx']['scale']))
    grad = grad.numpy()
    sg = float(np.abs(gz).sum())
    gain = 8.0 if order == 1 else 64.0
    # ---- (b) exact oracle: autograd through a recomposition of the same forward
    x2 = torch.tensor(x, requires_grad=True)
    try:
        Zr = recompose(layer, x2, order)
    except Exception:       # noqa: the internals the recomposition borrows were refactored away: fall back to (a)
        Zr = None
        r.label('recomposition_unavailable')
    scale = max(gain * core.maxabs(x) + bias, 1e-300)
    if Zr is not None and Zr.shape == Z.shape and float((Zr - Z).abs().max()) <= 1e-12 * scale:
        r.label('exact_oracle_used')
        Gr, = torch.autograd.grad(_loss(Zr, g, False), x2)
        # conditioning: the phase re/r of a coefficient that is zero up to rounding (amplitude * eps) is only defined
        # to (amplitude * eps) / bias - two correct evaluations differ by that much (thorough run, seed 4: a 2.5e6
        # grating with bias 1e-6)
        cond = 4 * core.EPS64 * gain * core.maxabs(x) / bias
        tol = (1e-9 + cond) * max(np.abs(gz).max() * gain, 1e-300)
        okc, err = core.close(grad, Gr.numpy(), tol)
        r.metric('exact_grad_err', err / max(np.abs(gz).max() * gain, 1e-300))
        if not okc:
            r.fail('grad_vs_autograd:order%d%s' % (order, ':colour' if colour else ''),
                   'back-propagated gradient differs from torch autograd of the same forward: ' +
                   core.first_mismatch(grad, Gr.numpy(), tol))
    else:
        r.label('recomposition_does_not_reproduce_forward')
    # ---- (a) finite differences on the real forward
    # central differences need a step far below the smoothing bias (the magnitude has curvature 1/bias at zero
    # coefficients): only where the bias is not small against the amplitude (gratings come with amplitudes up to 255)
    if bias >= 1e-3 * max(1.0, core.maxabs(x)) and case['rx']['scale'] == 0 and sg > 0:
        r.label('finite_differences_used')
        rs = np.random.RandomState(case['k'])
        h = 1e-6 * (core.maxabs(x) + bias)
        for i in range(4):
            v = rs.randn(*x.shape) if i % 2 == 0 else (rs.rand(*x.shape) < 0.2) * rs.randn(*x.shape)
            if not v.any():
                continue
            with torch.no_grad():
                fp = float((layer(torch.tensor(x + h * v)) * g).sum())
                fm = float((layer(torch.tensor(x - h * v)) * g).sum())
            d_fd = (fp - fm) / (2 * h)
            d_bp = float((grad * v).sum())
            tol = 1e-4 * max(abs(d_fd), abs(d_bp)) + 1e-7 * sg * core.maxabs(v)
            r.metric('fd_rel_err', abs(d_fd - d_bp) / max(abs(d_fd), abs(d_bp), 1e-300) if max(abs(d_fd), abs(d_bp)) > 1e-6 * sg else 0.0)
            if not abs(d_fd - d_bp) <= tol:
                r.fail('grad_vs_finite_differences:order%d%s' % (order, ':colour' if colour else ''),
                       'directional derivative by back-propagation %.10g, by central differences %.10g' % (d_bp, d_fd))
                break
    # ---- (c) float32 finiteness
    layer32 = c08.make_layer(case, torch.float32)
    x32 = torch.tensor(x.astype(np.float32), requires_grad=True)
    if bool(torch.isfinite(x32).all()):
        ok, Z32 = lib(layer32, x32)
        if not ok:
            return r.fail(Z32.bucket, 'float32 forward raised: %s' % Z32)
        if not bool(torch.isfinite(Z32).all()):
            # the input overflows float32 inside the forward pass itself (squares of ~1e30): outside the domain
            r.label('f32_forward_overflow')
            return r
        ok, G32 = lib(torch.autograd.grad, _loss(Z32, torch.tensor(gz.astype(np.float32)), case['permuted_cotangent']), x32)
        if not ok:
            return r.fail('backward_raise:' + G32.bucket, 'float32 backward raised: %s' % G32)
        if G32[0].dtype != torch.float32:
            r.fail('grad_dtype', 'float32 input got a %s gradient' % G32[0].dtype)
        if not bool(torch.isfinite(G32[0]).all()):
            r.fail('nonfinite_grad:f32', 'float32 gradient has non-finite entries (bias %g, input kind %s scale %d)' %
                   (bias, case['rx']['kind'], case['rx']['scale']))
    # ---- (d) the stand-alone smooth magnitude
    from pytorch_wavelets.scatternet.lowlevel import SmoothMagFn
    rs = np.random.RandomState(case['k'] + 1)
    a, b_ = rs.randn(3, 4), rs.randn(3, 4)
    a[0, 0] = b_[0, 0] = 0.0
    gm = rs.randn(3, 4)
    for sub in ((True, False), (False, True), (True, True)):
        ta, tb = torch.tensor(a, requires_grad=sub[0]), torch.tensor(b_, requires_grad=sub[1])
        ra, rb = torch.tensor(a, requires_grad=sub[0]), torch.tensor(b_, requires_grad=sub[1])
        ins = [t for t, s in zip((ta, tb), sub) if s]
        rins = [t for t, s in zip((ra, rb), sub) if s]
        ok, out = lib(lambda: torch.autograd.grad(SmoothMagFn.apply(ta, tb, bias), ins, torch.tensor(gm), allow_unused=True))
        if not ok:
            r.fail('smoothmag_raise:%s' % (sub,), 'SmoothMagFn backward raised for requires_grad=%s: %s' % (sub, out))
            continue
        want = torch.autograd.grad(torch.sqrt(ra ** 2 + rb ** 2 + bias ** 2) - bias, rins, torch.tensor(gm))
        for o_, w_ in zip(out, want):
            if o_ is None or not bool(torch.isfinite(o_).all()) or float((o_ - w_).abs().max()) > 1e-12:
                r.fail('smoothmag_grad:%s' % (sub,), 'SmoothMagFn gradient wrong for requires_grad=%s' % (sub,))
    return r


LEVEL_TEXT = ('Generated-input search over both layers, families, positive biases, colour, sizes (incl. extended ones), input '
              'kinds from all-zero to 1e+-30 scales and contiguous / permuted cotangents, inputs in five memory layouts: the hand-written backward is compared '
              'with torch autograd of the same forward recomposed from differentiable primitives (exact, when the recomposition '
              'reproduces the output), with central finite differences of the real forward, and checked finite in float32 and '
              'float64; SmoothMagFn is compared with autograd for all three grad subsets.')
LEVEL_TEXT += (' Also generated: eval() mode, biases down to 1e-10 with matching low-amplitude inputs, oriented gratings (with a conditioning term in the tolerance).')
LEVEL_NOTE = ('Trusts torch autograd of conv2d/avg_pool2d/sqrt; finite differences only for bias >= 1e-3 and unit-scale inputs; '
              'sizes <= 24x24; the H or W == 2 domain of KF-D10 (C08) is skipped.')
TECHNIQUE = 'property-based testing (Hypothesis), gradient oracle: autograd of a recomposed forward + central finite differences'
