"""Common machinery of the property checks: case results, tensor recipes,
library-call wrapper, tolerances, shard-side Hypothesis driver with bounded
shrinking, and known-finding lookup.  See DESIGN.md section 2."""
import hashlib
import json
import os
import sys
import time
import traceback

import numpy as np

VERIF = os.path.dirname(os.path.dirname(os.path.abspath(__file__)))
REPO = os.environ.get('PWV_REPO', '/repo')


# --------------------------------------------------------------------------
# results
class Result:
    """Outcome of one generated case.

    status: 'ok' | 'violation' | 'known' | 'skip'
      ok         property held on this case
      violation  property broken; bucket names the root-cause class
      known      behaviour is a listed open known finding (kf id in .kf)
      skip       oracle undefined / nothing to check (counted, never a pass)
    """
    __slots__ = ('status', 'labels', 'nontrivial', 'key', 'msg', 'bucket',
                 'kf', 'metrics', 'allowed_rejection')

    def __init__(self):
        self.status = 'ok'
        self.labels = []
        self.nontrivial = False
        self.key = None
        self.msg = ''
        self.bucket = None
        self.kf = None
        self.metrics = {}
        self.allowed_rejection = False

    def label(self, *names):
        for n in names:
            if n and n not in self.labels:
                self.labels.append(n)
        return self

    def fail(self, bucket, msg):
        # first failure wins: it is the one closest to the root cause
        if self.status != 'violation':
            self.status = 'violation'
            self.bucket = bucket
            self.msg = msg
        return self

    def known(self, kf, msg=''):
        if self.status == 'ok' or self.status == 'skip':
            self.status = 'known'
            self.kf = kf
            self.msg = msg
        return self

    def skip(self, why):
        if self.status == 'ok':
            self.status = 'skip'
            self.msg = why
        return self

    def metric(self, name, value):
        value = float(value)
        if name not in self.metrics or value > self.metrics[name]:
            self.metrics[name] = value

    @property
    def failed(self):
        return self.status == 'violation'


def case_key(case, drop=('seed', 'x', 'g', 'content', 'recipes', 'rx', 'ry',
                         'rg', 'rp')):
    """Configuration of a case without its content seeds (for 'distinct')."""
    def strip(o):
        if isinstance(o, dict):
            return {k: strip(v) for k, v in sorted(o.items())
                    if k not in drop}
        if isinstance(o, (list, tuple)):
            return [strip(v) for v in o]
        return o
    return json.dumps(strip(case), sort_keys=True, separators=(',', ':'))


def short_hash(s):
    return hashlib.md5(s.encode()).hexdigest()[:12]


# --------------------------------------------------------------------------
# library calls
class LibRaised(Exception):
    """The library under test raised where the property demands a result."""
    def __init__(self, exc):
        super().__init__('%s: %s' % (type(exc).__name__, str(exc)[:300]))
        self.exc = exc
        tb = traceback.extract_tb(exc.__traceback__)
        site = '?'
        for f in tb:
            if 'pytorch_wavelets' in f.filename:
                site = '%s:%s' % (os.path.basename(f.filename), f.name)
        self.site = site
        self.bucket = 'raise:%s@%s' % (type(exc).__name__, site)


LIB_RETURNS = [0]       # how many library calls have returned a value (used to classify harness-side shape errors)


def lib(fn, *a, **k):
    """Call into the library. Returns (True, value) or (False, LibRaised)."""
    try:
        v = fn(*a, **k)
        LIB_RETURNS[0] += 1
        return True, v
    except Exception as e:      # noqa: the library may raise anything
        return False, LibRaised(e)


def libcall(fn, *a, **k):
    """Call into the library where raising is itself the violation."""
    try:
        v = fn(*a, **k)
        LIB_RETURNS[0] += 1
        return v
    except LibRaised:
        raise
    except Exception as e:
        raise LibRaised(e)


# --------------------------------------------------------------------------
# tensor recipes: all content randomness comes from Hypothesis-drawn seeds
RECIPE_KINDS = ['gaussian', 'gaussian', 'sparse', 'constant', 'wide', 'offset',
                'ramp', 'ints', 'spike', 'contrast', 'grating']


def make(recipe, shape, dtype=np.float64):
    """Expand a recipe dict {'kind','seed','scale'} into an ndarray."""
    rs = np.random.RandomState(int(recipe['seed']) % (2**32))
    kind = recipe['kind']
    shape = tuple(int(s) for s in shape)
    n = int(np.prod(shape)) if len(shape) else 1
    if kind == 'gaussian':
        a = rs.randn(*shape)
    elif kind == 'sparse':
        a = np.zeros(n)
        k = max(1, n // 8)
        idx = rs.choice(n, size=min(k, n), replace=False)
        a[idx] = rs.randn(len(idx))
        a = a.reshape(shape)
    elif kind == 'constant':
        a = np.full(shape, rs.randn())
    elif kind == 'wide':
        a = rs.randn(*shape) * np.exp(8 * rs.randn(*shape))
    elif kind == 'offset':
        a = 1e3 + 1e-3 * rs.randn(*shape)
    elif kind == 'ramp':
        a = np.arange(n, dtype=np.float64).reshape(shape) / max(1, n) + \
            0.01 * rs.randn(*shape)
    elif kind == 'ints':
        a = rs.randint(-3, 4, size=shape).astype(np.float64)
    elif kind == 'spike':
        a = np.zeros(n)
        a[rs.randint(n)] = 1.0
        a = a.reshape(shape)
    elif kind == 'contrast':
        # +1 / -1 pairs: non-zero but summing exactly to zero (defeats 'x.sum() == 0 means empty' shortcuts)
        a = np.zeros(n)
        for _ in range(1 + int(recipe['seed']) % 3):
            i, j = rs.randint(n), rs.randint(n)
            if i != j:
                a[i] += 1.0
                a[j] -= 1.0
        a = a.reshape(shape)
    elif kind == 'zeros':
        a = np.zeros(shape)
    elif kind == 'grating':
        # an oriented sinusoid (one per leading slice): energy in one orientation / one band only, its mirror
        # orientation and the other bands (nearly) empty - the structured counterpart of noise
        fr = [(0.25, 0.25), (0.25, -0.25), (0.25, 0.0), (0.0, 0.25), (0.125, 0.125), (0.125, -0.25), (0.5, 0.0),
              (0.5, 0.5), (0.1875, 0.0625), (0.0, 0.0625)]
        sp = shape[-2:] if len(shape) >= 2 else shape
        lead = int(np.prod(shape[:-len(sp)])) if len(shape) > len(sp) else 1
        a = np.empty((lead,) + tuple(sp))
        for i in range(lead):
            fy, fx = fr[rs.randint(len(fr))]
            ph = [0.0, 0.25 * np.pi, 0.5 * np.pi, rs.rand() * 2 * np.pi][rs.randint(4)]
            if rs.randint(10) < 3:
                # the period-4 diagonal stripes (+ + - -): the mirrored diagonal orientation is exactly empty
                fy, fx = 0.25, [0.25, -0.25][rs.randint(2)]
                ph = 0.25 * np.pi + 0.5 * np.pi * rs.randint(4)
            amp = [1.0, 1.0, 100.0, 255.0][rs.randint(4)]
            if len(sp) == 2:
                yy, xx = np.meshgrid(np.arange(sp[0]), np.arange(sp[1]), indexing='ij')
                a[i] = amp * np.cos(2 * np.pi * (fy * yy + fx * xx) + ph)
            else:
                a[i] = amp * np.cos(2 * np.pi * fy * np.arange(sp[0]) + ph)
        a = a.reshape(shape)
    else:
        raise ValueError('unknown recipe kind %r' % (kind,))
    a = a * (10.0 ** int(recipe.get('scale', 0)))
    return np.ascontiguousarray(a, dtype=dtype)


def recipe_strategy(kinds=None, scales=(0, 0, 0, 0, 0, 0, 3, -3, 6, -6, -10, -18, 10)):
    from hypothesis import strategies as st
    return st.fixed_dictionaries({
        'kind': st.sampled_from(kinds or RECIPE_KINDS),
        'seed': st.integers(0, 2**20),
        'scale': st.sampled_from(list(scales)),
    })


# --------------------------------------------------------------------------
# comparison helpers
EPS64 = float(np.finfo(np.float64).eps)
EPS32 = float(np.finfo(np.float32).eps)
# float64 comparisons against an external reference or against the function's own extracted operator (same filters on both
# sides; no filter-table precision involved): relative to gain*max|x|. Largest value seen on the pinned tree over all tiers
# and seeds is 1e-14; a float32-rounded constant in a float64 path gives 3e-8 (seeded change C11-10 was caught only just
# with the 1e-9 this used to be). Also used by C08 (reference composition; largest value seen 2e-16 of the scale). Checks whose identity is limited by table precision (C02, C04, C12, C17, C18) keep 1e-9.
TOL64 = 1e-11


def gain(A):
    """Largest absolute row sum of a matrix (inf-norm operator gain)."""
    A = np.asarray(A)
    if A.size == 0:
        return 0.0
    return float(np.abs(A).sum(axis=1).max())


def maxabs(a):
    a = np.asarray(a)
    return float(np.abs(a).max()) if a.size else 0.0


def close(a, b, tol):
    """max|a-b| <= tol, shapes equal, and no NaN on either side."""
    a = np.asarray(a)
    b = np.asarray(b)
    if a.shape != b.shape:
        return False, float('inf')
    if a.size == 0:
        return True, 0.0
    d = np.abs(a - b)
    if not np.all(np.isfinite(d)):
        return False, float('inf')
    m = float(d.max())
    return m <= tol, m


def first_mismatch(a, b, tol):
    a = np.asarray(a)
    b = np.asarray(b)
    if a.shape != b.shape:
        return 'shape %s vs %s' % (a.shape, b.shape)
    d = np.abs(a - b)
    d = np.where(np.isfinite(d), d, np.inf)
    idx = np.unravel_index(int(np.argmax(d > tol)), d.shape) if d.size else ()
    return 'at %s: got %r want %r (|d|max=%.3g, tol=%.3g)' % (
        tuple(int(i) for i in idx), float(a[idx]), float(b[idx]),
        float(d.max()), tol)


# --------------------------------------------------------------------------
# known findings
_KF = None


def known_findings():
    global _KF
    if _KF is None:
        p = os.path.join(VERIF, 'known_findings.json')
        with open(p) as f:
            _KF = json.load(f)
    return _KF


def kf_open(kf_id, prop_id):
    for e in known_findings().get('open', []):
        if e['id'] == kf_id and prop_id in e['properties']:
            return True
    return False


def kf_witnesses(prop_id):
    out = []
    for e in known_findings().get('open', []):
        for w in e.get('witnesses', []):
            if w['property'] == prop_id:
                out.append((e, w['case']))
    return out


# --------------------------------------------------------------------------
# shard-side recorder
class Recorder:
    def __init__(self, prop_id):
        self.prop_id = prop_id
        self.evaluations = 0
        self.shrink_evaluations = 0
        self.status_counts = {}
        self.labels = {}
        self.keys = set()           # hashes of distinct non-trivial keys
        self.samples = []
        self.sample_every = 1
        self.metrics = {}
        self.kf_hits = {}
        self.kf_examples = {}
        self.allowed_rejections = 0
        self.violations = []        # dicts: bucket,msg,case,first_case
        self.suppressed = set()     # buckets already reported
        self.suppressed_hits = {}
        self.harness_errors = []
        self.units = []
        self.truncated = False

    def add(self, case, res):
        self.evaluations += 1
        self.status_counts[res.status] = self.status_counts.get(res.status, 0) + 1
        for l in res.labels:
            self.labels[l] = self.labels.get(l, 0) + 1
        if res.nontrivial and res.status in ('ok', 'known', 'violation'):
            self.keys.add(short_hash(res.key or case_key(case)))
        for k, v in (res.metrics.items() if res.status == 'ok' else ()):
            if k not in self.metrics or v > self.metrics[k]:
                self.metrics[k] = v
        if res.allowed_rejection:
            self.allowed_rejections += 1
        if res.status == 'known':
            self.kf_hits[res.kf] = self.kf_hits.get(res.kf, 0) + 1
            self.kf_examples.setdefault(res.kf, case)
        # sampling: keep a thinning reservoir of at most ~24 cases
        if self.evaluations % self.sample_every == 0:
            self.samples.append({'case': case, 'status': res.status,
                                 'labels': list(res.labels)})
            if len(self.samples) > 24:
                self.samples = self.samples[::2]
                self.sample_every *= 2

    def dump(self):
        return {
            'prop': self.prop_id, 'evaluations': self.evaluations,
            'shrink_evaluations': self.shrink_evaluations,
            'status_counts': self.status_counts, 'labels': self.labels,
            'keys': sorted(self.keys), 'samples': self.samples,
            'metrics': self.metrics, 'kf_hits': self.kf_hits,
            'kf_examples': self.kf_examples,
            'allowed_rejections': self.allowed_rejections,
            'violations': self.violations,
            'suppressed_hits': self.suppressed_hits,
            'harness_errors': self.harness_errors, 'units': self.units,
            'truncated': self.truncated,
        }


def execute(prop, case, rec):
    """run_case with exception classification. Never raises."""
    returns0 = LIB_RETURNS[0]
    try:
        res = prop.run_case(case)
    except LibRaised as e:
        res = Result()
        res.key = case_key(case)
        res.nontrivial = True
        res.fail(e.bucket, 'library raised %s' % e)
    except Exception as e:      # noqa
        tb = traceback.extract_tb(e.__traceback__)
        in_lib = [f for f in tb if 'pytorch_wavelets' in f.filename]
        res = Result()
        res.key = case_key(case)
        res.nontrivial = True
        if in_lib:
            f = in_lib[-1]
            res.fail('raise:%s@%s:%s' % (type(e).__name__,
                                         os.path.basename(f.filename), f.name),
                     'library raised %s: %s' % (type(e).__name__, str(e)[:300]))
        elif isinstance(e, RuntimeError) and 'Backward' in str(e) and 'invalid gradient' in str(e):
            # raised by the autograd engine about a hand-written backward of the library
            res.fail('raise:RuntimeError@autograd:invalid_gradient', 'library backward returned an invalid gradient: %s' % str(e)[:300])
        elif any(('site-packages/pywt' in f.filename or 'site-packages/dtcwt' in f.filename) for f in tb):
            # the reference itself rejects this input (the library did not): oracle undefined, case discarded
            res.skip('oracle undefined: %s: %s' % (type(e).__name__, str(e)[:200]))
            res.label('oracle_raised')
        elif LIB_RETURNS[0] > returns0 and isinstance(e, (ValueError, IndexError, RuntimeError, TypeError, AssertionError)) \
                and any(w in str(e).lower() for w in ('shape', 'size', 'reshape', 'broadcast', 'dimension', 'concatenat',
                                                    'index', 'unpack', 'split')):
            # the harness could not even lay out what the library returned against the expected structure
            res.fail('malformed_output:%s' % type(e).__name__,
                     'the library returned values of an unexpected structure: %s: %s' % (type(e).__name__, str(e)[:300]))
        else:
            rec.harness_errors.append({
                'case': case, 'error': '%s: %s' % (type(e).__name__, e),
                'traceback': traceback.format_exc()[-3000:]})
            res.skip('harness error')
    if res.key is None:
        res.key = case_key(case)
    return res


class _Violation(Exception):
    pass


SHRINK_BUDGET = int(os.environ.get('PWV_SHRINK_BUDGET', '250'))


def run_unit(prop, unit, seed, rec, deadline):
    """Run one Hypothesis search unit (a stratum or a free block)."""
    from hypothesis import given, settings, HealthCheck, seed as hseed
    strat = prop.strategy(unit)
    n = int(unit['n'])
    st = {'first': None, 'after': 0, 'seen': {}}

    def body(case):
        fail = None
        key = json.dumps(case, sort_keys=True)
        if key in st['seen']:
            fail = key
        elif rec.harness_errors or (st['first'] is None and
                                    time.time() > deadline):
            if time.time() > deadline:
                rec.truncated = True
        elif st['first'] is not None and st['after'] >= SHRINK_BUDGET:
            pass
        else:
            res = execute(prop, case, rec)
            if st['first'] is None:
                rec.add(case, res)
            else:
                st['after'] += 1
                rec.shrink_evaluations += 1
            if res.failed:
                if res.bucket in rec.suppressed:
                    if st['first'] is None:
                        rec.suppressed_hits[res.bucket] = \
                            rec.suppressed_hits.get(res.bucket, 0) + 1
                    else:
                        # while shrinking bucket A we may wander into an
                        # already reported bucket B: not a new failure
                        pass
                else:
                    st['seen'][key] = (case, res)
                    if st['first'] is None:
                        st['first'] = (case, res)
                    fail = key
        if fail is not None:
            raise _Violation(fail)

    test = hseed(seed)(settings(
        max_examples=n, database=None, deadline=None,
        report_multiple_bugs=False, derandomize=False,
        suppress_health_check=list(HealthCheck))(given(strat)(body)))
    t0 = time.time()
    found = None
    try:
        test()
    except BaseException as e:      # noqa
        if isinstance(e, (KeyboardInterrupt, SystemExit)) or st['first'] is None:
            raise
        if isinstance(e, _Violation) and str(e.args[0]) in st['seen']:
            case, res = st['seen'][str(e.args[0])]
        else:
            # Hypothesis could not reproduce the failure while shrinking (FlakyFailure / exception group): the
            # property depends on process history (C15, C18 by design). Report the first failing case unshrunk.
            case, res = st['first']
        first_case, first_res = st['first']
        found = {'bucket': res.bucket, 'msg': res.msg, 'case': case,
                 'first_case': first_case, 'first_bucket': first_res.bucket,
                 'shrink_executions': st['after']}
        rec.violations.append(found)
        rec.suppressed.add(res.bucket)
        rec.suppressed.add(first_res.bucket)
    rec.units.append({'unit': {k: v for k, v in unit.items()},
                      'seed': seed, 'wall_s': round(time.time() - t0, 2),
                      'found': bool(found)})
    return found


def replay_cases(prop, cases, rec, origin):
    """Run fixed cases (corpus / witnesses) outside Hypothesis."""
    for case in cases:
        res = execute(prop, case, rec)
        rec.add(case, res)
        if res.failed and res.bucket not in rec.suppressed:
            rec.violations.append({'bucket': res.bucket, 'msg': res.msg,
                                   'case': case, 'first_case': case,
                                   'first_bucket': res.bucket,
                                   'shrink_executions': 0, 'origin': origin})
            rec.suppressed.add(res.bucket)


GRAD_CTXS = ['default', 'default', 'default', 'no_grad', 'inference']


def grad_ctx(name):
    """The autograd context a case runs in: results must not depend on it."""
    import contextlib
    import torch
    if name == 'no_grad':
        return torch.no_grad()
    if name == 'inference':
        return torch.inference_mode()
    return contextlib.nullcontext()
