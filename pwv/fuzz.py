"""Coverage-guided fuzzing (atheris / libFuzzer) of a property's run_case.

usage: python -B -m pwv.fuzz PROP RUNS SEED OUT.json [corpus_dir]

The byte string is decoded by the property's `fuzz_case(fdp)` into the same JSON case format the Hypothesis
search uses; the semantic oracle (run_case) runs inside the target. Violations do not crash the fuzzer: they are
recorded (one per root-cause bucket) and the campaign goes on. libFuzzer ends the process without running atexit
handlers, so the shard-format result file is rewritten every 100 executions and on every new violation."""
import json
import logging
import os
import sys
import time
import warnings

warnings.filterwarnings('ignore')
logging.disable(logging.WARNING)


def main(argv):
    pid, runs, seed, out = argv[1], int(argv[2]), int(argv[3]), argv[4]
    import atheris
    with atheris.instrument_imports(include=['pytorch_wavelets']):
        import pytorch_wavelets      # noqa: instrumented for coverage feedback
        import pytorch_wavelets.dtcwt.transform2d   # noqa
        import pytorch_wavelets.dtcwt.transform_funcs   # noqa
        import pytorch_wavelets.dtcwt.lowlevel   # noqa
    import torch
    torch.set_num_threads(1)
    from pwv import core
    from pwv.shard import load_prop
    prop = load_prop(pid)
    rec = core.Recorder(pid)
    t0 = time.time()
    state = {'n': 0}

    def dump():
        d = rec.dump()
        d['kf_status'] = {}
        d['wall_s'] = time.time() - t0
        d['n_units_total'] = 0
        d['units'] = [{'unit': {'engine': 'atheris', 'runs': runs}, 'seed': seed, 'wall_s': round(time.time() - t0, 1),
                       'found': bool(rec.violations)}]
        tmp = out + '.tmp'
        with open(tmp, 'w') as f:
            json.dump(d, f)
        os.replace(tmp, out)

    def one(data):
        fdp = atheris.FuzzedDataProvider(data)
        try:
            case = prop.fuzz_case(fdp)
        except Exception:       # noqa: undecodable input
            return
        if case is None:
            return
        res = core.execute(prop, case, rec)
        res.label('engine_atheris')
        rec.add(case, res)
        state['n'] += 1
        if res.failed and res.bucket not in rec.suppressed:
            rec.violations.append({'bucket': res.bucket, 'msg': res.msg, 'case': case, 'first_case': case,
                                   'first_bucket': res.bucket, 'shrink_executions': 0, 'origin': 'atheris'})
            rec.suppressed.add(res.bucket)
            dump()
        elif state['n'] % 100 == 0:
            dump()

    dump()
    args = [argv[0], '-runs=%d' % runs, '-seed=%d' % max(1, seed % (2 ** 31)), '-max_len=64', '-print_final_stats=0',
            '-verbosity=0']
    if len(argv) > 5:
        os.makedirs(argv[5], exist_ok=True)
        args.append(argv[5])
    atheris.Setup(args, one)
    try:
        atheris.Fuzz()
    finally:
        dump()


if __name__ == '__main__':
    main(sys.argv)
