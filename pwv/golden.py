"""Fresh-interpreter golden: `python -B -m pwv.golden OUT.npz < job.json`.
The transform call below is the very first library call of this process."""
import json
import sys
import warnings

warnings.filterwarnings('ignore')


def main():
    job = json.load(sys.stdin)
    import logging
    logging.disable(logging.WARNING)
    import numpy as np
    import torch
    torch.set_num_threads(1)
    from pwv import core, xf
    dt = torch.float64 if job['dtype'] == 'f64' else torch.float32
    ndt = np.float64 if job['dtype'] == 'f64' else np.float32
    cfg = job['cfg']
    x = core.make(job['rx'], [job['N'], job['C'], xf.total_in(cfg)]).astype(ndt)
    m, fn = xf.build(cfg, dt)
    if job.get('convert') == 'roundtrip' and m is not None:
        m = m.double().float() if dt == torch.float32 else m.float().double()
    with torch.no_grad():
        outs = fn(xf.pack(x, cfg, dt))
    # second call of this interpreter: the gradients for a fixed cotangent (see pwv.props.c15.cotangent)
    from pwv.props.c15 import cotangent
    ins = [t.requires_grad_(True) for t in xf.pack(x, cfg, dt)]
    outs2 = fn(ins)
    diff = [o for o in outs2 if o.requires_grad]
    grads = []
    if diff:
        gs = torch.autograd.grad(diff, ins, [cotangent(o) for o in diff], allow_unused=True)
        grads = [np.zeros(0, dtype=ndt) if g is None else g.numpy() for g in gs]
    np.savez(sys.argv[1], *([o.numpy() for o in outs] + grads), n_out=np.array(len(outs)))


if __name__ == '__main__':
    main()
