"""Shared DTCWT plumbing: filter-pair and size generators, the reference NumPy
`dtcwt` transform as oracle, pyramid shapes from first principles, layout
conversion between the reference (h,w,6 complex) and the library
(6,h,w,2 real)."""
import logging

import numpy as np
from hypothesis import strategies as st

logging.disable(logging.WARNING)

BIORTS = ['antonini', 'legall', 'near_sym_a', 'near_sym_b']
QSHIFTS = ['qshift_06', 'qshift_a', 'qshift_b', 'qshift_c', 'qshift_d', 'qshift_32']
PAIRS = [(b, q) for b in BIORTS for q in QSHIFTS]
_REF = {}


def ref_transform(biort, qshift):
    from dtcwt.numpy import Transform2d
    key = (biort, qshift)
    if key not in _REF:
        _REF[key] = Transform2d(biort, qshift)
    return _REF[key]


def pair_strategy():
    # the undocumented-but-shipped qshift_32 gets a smaller share
    return st.tuples(st.sampled_from(BIORTS),
                     st.sampled_from(QSHIFTS[:5] * 3 + QSHIFTS[5:]))


def size_strategy(cap=40):
    """Image extents around the code's branches: tiny, multiples of 4 and their
    neighbours, 8k+r."""
    return st.one_of(
        st.integers(2, 9),
        st.tuples(st.integers(1, max(1, cap // 4)), st.sampled_from([-1, 0, 1, 2])).map(
            lambda t: max(2, min(cap, 4 * t[0] + t[1]))),
        st.tuples(st.integers(0, max(0, cap // 8 - 1)), st.integers(0, 7)).map(
            lambda t: max(2, min(cap, 8 * t[0] + t[1]))),
        st.integers(2, cap))


def pyramid_shapes(H, W, J):
    """(lowpass (r,c), [highpass (r,c) per level, finest first],
    [(row_padded, col_padded) per level]) from first principles: level 1 works
    on the image extended to even size; every further level first pads the
    lowpass by one sample on each side when its extent is not a multiple of 4."""
    r, c = H + H % 2, W + W % 2
    hs = [(r // 2, c // 2)]
    low = (r, c)
    pads = [(False, False)]
    for _ in range(1, J):
        pr, pc = low[0] % 4 != 0, low[1] % 4 != 0
        r, c = low[0] + 2 * pr, low[1] + 2 * pc
        hs.append((r // 4, c // 4))
        low = (r // 2, c // 2)
        pads.append((pr, pc))
    return low, hs, pads


def ref_forward(x, biort, qshift, J):
    """Reference forward on one image (H,W): lowpass (r,c) and highpasses in the
    library's default layout (6,h,w,2), finest first."""
    p = ref_transform(biort, qshift).forward(np.asarray(x, dtype=np.float64), nlevels=J)
    his = [np.stack([h.real, h.imag], axis=-1).transpose(2, 0, 1, 3) for h in p.highpasses]
    return p.lowpass, his


def ref_forward_flat(xs, biort, qshift, J):
    """Reference forward on a stack of images (T,H,W) -> (T,total) in the order
    [lowpass, level1, ..., levelJ], plus the shapes."""
    rows, shapes = [], None
    for x in xs:
        lo, his = ref_forward(x, biort, qshift, J)
        rows.append(np.concatenate([lo.ravel()] + [h.ravel() for h in his]))
        shapes = [lo.shape] + [h.shape for h in his]
    return np.stack(rows), shapes


def _ref_inverse_raw(lo, his, biort, qshift):
    from dtcwt.numpy import Pyramid
    hp = tuple((h[..., 0] + 1j * h[..., 1]).transpose(1, 2, 0) for h in his)
    return ref_transform(biort, qshift).inverse(Pyramid(np.asarray(lo, dtype=np.float64), hp))


def ref_inverse(lo, his, biort, qshift):
    """Reference inverse; his in library layout (6,h,w,2) (numpy), lo (r,c).

    The reference's colifilt has a shortcut `if not np.any(np.nonzero(X)[0]):
    return zeros` that is meant to detect an all-zero block but also fires when
    every non-zero entry sits in row 0 (row indices are all 0), so the
    reference is WRONG on such inputs (e.g. basis pyramids). To keep the
    oracle sound the pyramid P is evaluated as ref(R + P) - ref(R) with a fixed
    generic dense pyramid R of the same shapes and magnitude: all
    intermediates are then generic and the reference is linear."""
    lo = np.asarray(lo, dtype=np.float64)
    scale = max([float(np.abs(lo).max()) if lo.size else 0.0] +
                [float(np.abs(h).max()) if h.size else 0.0 for h in his])
    if not np.isfinite(scale) or scale == 0.0:
        scale = 1.0
    rs = np.random.RandomState(12345)
    Rl = scale * (0.5 + rs.rand(*lo.shape))
    Rh = [scale * (0.5 + rs.rand(*h.shape)) for h in his]
    a = _ref_inverse_raw(lo + Rl, [h + r for h, r in zip(his, Rh)], biort, qshift)
    b = _ref_inverse_raw(Rl, Rh, biort, qshift)
    return a - b


def lib_flat(yl, yh):
    """Library output -> (N*C, total) in the same order (default layout)."""
    n = yl.shape[0] * yl.shape[1]
    parts = [yl.detach().numpy().astype(np.float64).reshape(n, -1)]
    for h in yh:
        parts.append(h.detach().numpy().astype(np.float64).reshape(n, -1))
    return np.concatenate(parts, axis=1)


def size_labels(H, W, J):
    _, _, pads = pyramid_shapes(H, W, J)
    labs = []
    if H % 2:
        labs.append('odd_rows')
    if W % 2:
        labs.append('odd_cols')
    for j, (pr, pc) in enumerate(pads):
        if pr:
            labs.append('pad4_rows')
        if pc:
            labs.append('pad4_cols')
    return labs


_RESID = {}


def qshift_residual(qshift):
    """How far the (reference) q-shift table is from exact orthonormality:
    the tables are stored to ~9 significant digits, and perfect
    reconstruction can only hold to that precision per level."""
    if qshift not in _RESID:
        import dtcwt.coeffs as dc
        t = dc.qshift(qshift)
        h0a, h1a = np.ravel(t[0]), np.ravel(t[4])
        m = len(h0a)
        res = 0.0
        for k in range(0, m // 2):
            s = 2 * k
            d = 1.0 if k == 0 else 0.0
            res = max(res, abs(float(np.dot(h0a[:m - s], h0a[s:])) - d),
                      abs(float(np.dot(h1a[:m - s], h1a[s:])) - d),
                      abs(float(np.dot(h0a[:m - s], h1a[s:]))), abs(float(np.dot(h1a[:m - s], h0a[s:]))))
        _RESID[qshift] = res
    return _RESID[qshift]


def filt_args(biort, qshift, form, inverse=False):
    """The documented ways of naming the filters: names, or tuples of arrays (level-1 (lo, hi) and q-shift
    (lo a, lo b, hi a, hi b)), taken from the reference package's tables."""
    if form != 'tuples':
        return biort, qshift
    import dtcwt.coeffs as dc
    h0o, g0o, h1o, g1o = dc.biort(biort)
    h0a, h0b, g0a, g0b, h1a, h1b, g1a, g1b = dc.qshift(qshift)
    if inverse:
        return (g0o, g1o), (g0a, g0b, g1a, g1b)
    return (h0o, h1o), (h0a, h0b, h1a, h1b)


MASK_CONTAINERS = ['list', 'list', 'tuple', 'ndarray', 'int_list']


def boxed_mask(m, kind):
    """The containers a per-level mask (skip_hps / include_scale) may arrive in: list / tuple of bools, bool ndarray
    (the constructor handles ndarrays explicitly), list of 0/1 integers; one bool for all levels stays as it is."""
    if isinstance(m, bool) or kind == 'list':
        return m
    if kind == 'tuple':
        return tuple(m)
    if kind == 'int_list':
        return [int(v) for v in m]
    return np.array(m, dtype=bool)


def other_pair(b, q):
    """A (biort, qshift) pair of names that differs from (b, q) in both members (same tap counts where a twin exists)."""
    ob = {'near_sym_a': 'legall', 'legall': 'near_sym_a', 'near_sym_b': 'antonini', 'antonini': 'near_sym_b'}.get(b, 'near_sym_a')
    oq = {'qshift_06': 'qshift_a', 'qshift_a': 'qshift_06', 'qshift_b': 'qshift_c', 'qshift_c': 'qshift_d',
          'qshift_d': 'qshift_c'}.get(q, 'qshift_a')
    return ob, oq
