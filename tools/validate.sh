#!/bin/sh
# validate MANIFEST.json and evidence/*.json against the schemas (tooling venv has jsonschema)
cd "$(dirname "$0")/.." && python3-vt - <<'PY'
import json, jsonschema, glob
jsonschema.validate(json.load(open('MANIFEST.json')), json.load(open('/root/.vp/MANIFEST.schema.json')))
print('MANIFEST ok')
s=json.load(open('/root/.vp/EVIDENCE.schema.json'))
for f in sorted(glob.glob('evidence/*.json')):
    jsonschema.validate(json.load(open(f)), s); print(f,'ok')
PY
