#!/bin/sh
# tools/mut.sh <patch-file|-R:commit> <ID> [tier]  : run a check against a scratch copy of /repo with a patch applied
# The scratch copy lives under /tmp and is removed afterwards.
set -e
PATCH="$1"; ID="$2"; TIER="${3:-quick}"
case "$PATCH" in -R:*|/*) ;; *) PATCH="$(pwd)/$PATCH" ;; esac
D=$(mktemp -d /tmp/pwvmut.XXXXXX)
trap 'rm -rf "$D"' EXIT
git -C /repo archive HEAD | tar -x -C "$D"
# include uncommitted working tree state of /repo too
(cd /repo && git diff HEAD) | (cd "$D" && patch -p1 -s 2>/dev/null || true)
case "$PATCH" in
  -R:*) git -C /repo show "${PATCH#-R:}" | (cd "$D" && patch -R -p1 -s) || { echo "PATCH-FAILED $PATCH"; exit 3; } ;;
  *) (cd "$D" && patch -p1 -s < "$PATCH") || { echo "PATCH-FAILED $PATCH"; exit 3; } ;;
esac
cd "$(dirname "$0")/.."
set +e
PWV_REPO="$D" ./check "$ID" --tier "$TIER" --no-evidence
echo "exit=$?"
