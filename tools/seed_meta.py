"""Write seeded/<ID>-<i>/meta.json from the agent's meta, verify.txt and tests.txt; print a table for DESIGN.md."""
import glob, json, os, re
V = os.path.dirname(os.path.dirname(os.path.abspath(__file__)))
rows = []
for d in sorted(glob.glob(os.path.join(V, 'seeded', 'C*-*'))):
    name = os.path.basename(d)
    am = json.load(open(os.path.join(d, 'agent_meta.json'))) if os.path.exists(os.path.join(d, 'agent_meta.json')) else {}
    ver = open(os.path.join(d, 'verify.txt')).read().strip() if os.path.exists(os.path.join(d, 'verify.txt')) else ''
    tests = open(os.path.join(d, 'tests.txt')).read().strip() if os.path.exists(os.path.join(d, 'tests.txt')) else 'not run yet'
    checks = dict(re.findall(r'(C\d\d):exit(\d)', ver))
    caught = [c for c, e in checks.items() if e == '1']
    buckets = {}
    for c in checks:
        p = os.path.join(d, 'check_%s.out' % c)
        if os.path.exists(p):
            m = re.search(r'violation bucket=([^:]+(?::[^ :]+)*): ', open(p).read())
            buckets[c] = m.group(1) if m else None
    extra = json.load(open(os.path.join(d, 'note.json'))) if os.path.exists(os.path.join(d, 'note.json')) else {}
    meta = {
        'property': name.split('-')[0],
        'summary': am.get('summary', ''),
        'needs_to_manifest': am.get('needs', ''),
        'files': am.get('files', []),
        'origin': 'independent sub-agent given only the property text and a scratch worktree',
        'what_was_run': {
            'demonstration': 'demo.py exits 0 (PASS) on a clean copy of /repo HEAD and 1 (FAIL) with patch.diff applied: ' + ver,
            'pinned_tests': tests,
            'checks': {c: ('VIOLATION (exit 1), bucket %s' % buckets.get(c)) if e == '1' else 'exit %s' % e for c, e in checks.items()},
        },
        'caught_by': caught,
    }
    meta.update(extra)
    json.dump(meta, open(os.path.join(d, 'meta.json'), 'w'), indent=1)
    rows.append('| %s | %s | %s | %s | %s |' % (name, (am.get('summary', '') or '')[:110].replace('|', '/'),
                                          (am.get('needs', '') or '')[:110].replace('|', '/'), ', '.join(caught) or '—',
                                          extra.get('history', '')))
print('\n'.join(rows))
