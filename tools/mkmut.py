"""tools/mkmut.py NAME FILE 'old' 'new' [PROPS] [DESCR] -> mutants/NAME.patch (diff against /repo HEAD) + index entry"""
import json, os, subprocess, sys, tempfile, shutil
name, rel, old, new = sys.argv[1:5]
props = sys.argv[5].split(',') if len(sys.argv) > 5 else []
descr = sys.argv[6] if len(sys.argv) > 6 else ''
V = os.path.dirname(os.path.dirname(os.path.abspath(__file__)))
d = tempfile.mkdtemp(prefix='/tmp/mkmut.')
try:
    subprocess.check_call('git -C /repo archive HEAD | tar -x -C %s' % d, shell=True)
    subprocess.check_call(['git', 'init', '-q'], cwd=d)
    subprocess.check_call('git add -A && git -c user.email=a@b -c user.name=a commit -qm base', shell=True, cwd=d)
    p = os.path.join(d, rel)
    s = open(p).read()
    old = old.encode().decode('unicode_escape'); new = new.encode().decode('unicode_escape')
    assert s.count(old) >= 1, 'pattern not found'
    open(p, 'w').write(s.replace(old, new, 1))
    diff = subprocess.check_output(['git', 'diff'], cwd=d).decode()
    open(os.path.join(V, 'mutants', name + '.patch'), 'w').write(diff)
    ip = os.path.join(V, 'mutants', 'index.json')
    idx = json.load(open(ip)) if os.path.exists(ip) else {}
    idx[name] = {'props': props, 'descr': descr}
    json.dump(idx, open(ip, 'w'), indent=1, sort_keys=True)
    print('wrote mutants/%s.patch (%d lines)' % (name, diff.count('\n')))
finally:
    shutil.rmtree(d)
