#!/bin/sh
# tools/seed_recheck.sh <ID-i> [checks...] : re-run demo + checks for a seeded change kept under seeded/<ID-i>/
S="$1"; shift; ID="${S%-*}"; CHECKS="${*:-$ID}"
V="$(cd "$(dirname "$0")/.." && pwd)"; SRC="$V/seeded/$S"
D=$(mktemp -d /tmp/seedv.XXXXXX); trap 'rm -rf "$D"' EXIT
mkdir -p "$D/clean" "$D/mut"
git -C /repo archive HEAD | tar -x -C "$D/clean"; git -C /repo archive HEAD | tar -x -C "$D/mut"
(cd "$D/mut" && git init -q . && git apply "$SRC/patch.diff") || { echo "$S APPLY-FAILED"; exit 3; }
export OMP_NUM_THREADS=1
(cd "$D" && PYTHONPATH="$D/clean" timeout 900 /venv/bin/python -B "$SRC/demo.py" >"$D/clean.out" 2>&1); RC_CLEAN=$?
(cd "$D" && PYTHONPATH="$D/mut" timeout 900 /venv/bin/python -B "$SRC/demo.py" >"$D/mut.out" 2>&1); RC_MUT=$?
RES=""
for C in $CHECKS; do
  (cd "$V" && PWV_REPO="$D/mut" ./check "$C" --tier quick --no-evidence > "$D/check.out" 2>&1); RC=$?
  if [ $RC -eq 1 ] && ! grep -q "^VIOLATION property=$C " "$D/check.out"; then RC=9; fi
  RES="$RES $C:exit$RC"
  cp "$D/check.out" "$SRC/check_$C.out"
done
echo "$S demo_clean=$RC_CLEAN demo_changed=$RC_MUT checks:$RES" | tee "$SRC/verify.txt"
[ -n "$SEED_KEEP_REPLAYS" ] || rm -rf "$V/replays"
