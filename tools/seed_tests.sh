#!/bin/sh
# tools/seed_tests.sh <ID-i> ... : for each seeded change, run the repository's pinned test files on a scratch copy with
# the patch applied and record how many of the 241 baseline tests still pass (seeded/<ID-i>/tests.txt).
V="$(cd "$(dirname "$0")/.." && pwd)"
for S in "$@"; do
  [ -f "$V/seeded/$S/tests.txt" ] && continue
  D=$(mktemp -d /tmp/seedt.XXXXXX)
  git -C /repo archive HEAD | tar -x -C "$D"
  (cd "$D" && git init -q . && git apply "$V/seeded/$S/patch.diff") || { echo "$S APPLY-FAILED" > "$V/seeded/$S/tests.txt"; rm -rf "$D"; continue; }
  (cd "$D" && OMP_NUM_THREADS=1 PYTHONPATH="$D" /venv/bin/python -m pytest -q -p no:cacheprovider --timeout=900 \
      --continue-on-collection-errors -n 6 --junitxml="$D/j.xml" tests > "$D/log.txt" 2>&1)
  /venv/bin/python - "$D/j.xml" "$S" > "$V/seeded/$S/tests.txt" <<'PY'
import json, sys, xml.etree.ElementTree as ET
b = json.load(open('/root/.vp/BASELINE.json'))
want = set(b['stable_pass'])
passed = set()
for tc in ET.parse(sys.argv[1]).iter('testcase'):
    if not list(tc):
        passed.add(tc.get('classname') + '::' + tc.get('name'))
missing = sorted(want - passed)
print('%s: %d of %d baseline tests pass with the change; missing: %s' % (sys.argv[2], len(want & passed), len(want), missing[:5]))
PY
  rm -rf "$D"
done
