#!/bin/sh
# tools/seed_verify.sh <ID> <i> [checks...] : confirm a sub-agent's seeded change /tmp/seed/<ID>.out/change<i>.diff:
#   demo passes on a clean copy of /repo HEAD, fails with the change; then run the given checks (default: <ID>) on it.
# Copies the artefacts to /verif/seeded/<ID>-<i>/ . Scratch copies live under /tmp and are removed.
ID="$1"; I="$2"; shift 2; CHECKS="${*:-$ID}"
SRC=${SEED_SRC:-/tmp/seed/$ID.out}
V="$(cd "$(dirname "$0")/.." && pwd)"
D=$(mktemp -d /tmp/seedv.XXXXXX); trap 'rm -rf "$D"' EXIT
mkdir -p "$D/clean" "$D/mut"
git -C /repo archive HEAD | tar -x -C "$D/clean"; git -C /repo archive HEAD | tar -x -C "$D/mut"
(cd "$D/mut" && git init -q . && git apply "$SRC/change$I.diff") || { echo "APPLY-FAILED"; exit 3; }
export OMP_NUM_THREADS=1
(cd "$D" && PYTHONPATH="$D/clean" timeout 900 /venv/bin/python -B "$SRC/demo$I.py" >"$D/clean.out" 2>&1); RC_CLEAN=$?
(cd "$D" && PYTHONPATH="$D/mut" timeout 900 /venv/bin/python -B "$SRC/demo$I.py" >"$D/mut.out" 2>&1); RC_MUT=$?
echo "demo: clean exit=$RC_CLEAN ($(tail -1 $D/clean.out | cut -c1-80)) | changed exit=$RC_MUT ($(tail -1 $D/mut.out | cut -c1-80))"
OUT="$V/seeded/${SEED_NAME:-$ID-$I}"; mkdir -p "$OUT"
cp "$SRC/change$I.diff" "$OUT/patch.diff"; cp "$SRC/demo$I.py" "$OUT/demo.py"; cp "$SRC/meta$I.json" "$OUT/agent_meta.json"
RES=""
for C in $CHECKS; do
  (cd "$V" && PWV_REPO="$D/mut" ./check "$C" --tier quick --no-evidence > "$D/check.out" 2>&1); RC=$?
  if [ $RC -eq 1 ] && ! grep -q "^VIOLATION property=$C " "$D/check.out"; then RC=9; fi
  B=$(grep -m1 "violation bucket" "$D/check.out" | cut -c1-200)
  echo "check $C: exit=$RC $B"
  RES="$RES $C:exit$RC"
  cp "$D/check.out" "$OUT/check_$C.out"
done
echo "${SEED_NAME:-$ID-$I} demo_clean=$RC_CLEAN demo_changed=$RC_MUT checks:$RES" > "$OUT/verify.txt"
rm -rf "$V/replays"
