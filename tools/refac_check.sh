#!/bin/sh
# tools/refac_check.sh <diff> <outfile> [checks...] : run quick checks against a behaviour-preserving refactoring;
# any exit != 0 is a false alarm (or a refactoring that is not behaviour-preserving - to be judged by hand).
DIFF="$1"; OUT="$2"; shift 2
CHECKS="${*:-C01 C02 C03 C04 C05 C06 C07 C08 C09 C10 C11 C12 C13 C14 C15 C16 C17 C18 C19}"
V="$(cd "$(dirname "$0")/.." && pwd)"
D=$(mktemp -d /tmp/refacv.XXXXXX); trap 'rm -rf "$D"' EXIT
git -C /repo archive HEAD | tar -x -C "$D"
(cd "$D" && git init -q . && git apply "$DIFF") || { echo "$DIFF APPLY-FAILED" | tee -a "$OUT"; exit 3; }
for C in $CHECKS; do
  (cd "$V" && PWV_REPO="$D" ./check "$C" --tier quick --no-evidence > "$D/check.out" 2>&1); RC=$?
  if [ $RC -ne 0 ]; then
    echo "$DIFF $C exit=$RC" >> "$OUT"; grep -E "violation bucket|minimal case|HARNESS" "$D/check.out" | cut -c1-700 | head -6 >> "$OUT"
  else
    echo "$DIFF $C ok" >> "$OUT"
  fi
done
rm -rf "$V/replays"
