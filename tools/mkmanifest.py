"""Regenerate MANIFEST.json from the property modules (run with /venv/bin/python)."""
import importlib, json, os, sys
VERIF = os.path.dirname(os.path.dirname(os.path.abspath(__file__)))
sys.path.insert(0, VERIF)
sys.path.insert(0, '/repo')
ALL = ['C%02d' % i for i in range(1, 20)]
NOT_APPLICABLE = {}
checks, na = [], []
for pid in ALL:
    path = os.path.join(VERIF, 'pwv', 'props', pid.lower() + '.py')
    if not os.path.exists(path):
        na.append({'property_id': pid, 'reason': NOT_APPLICABLE.get(
            pid, 'check not built yet in this revision of /verif (planned in DESIGN.md section 3)')})
        continue
    m = importlib.import_module('pwv.props.' + pid.lower())
    checks.append({
        'property_id': pid,
        'quick_cmd': './check %s --tier quick' % pid,
        'thorough_cmd': './check %s --tier thorough' % pid,
        'evidence_file': 'evidence/%s.json' % pid,
        'replay_cmd_template': './check %s --replay {path}' % pid,
        'engine': 'pwv',
        'level_claimed': {'category': 'exploration', 'text': m.LEVEL_TEXT,
                          'design_ref': 'DESIGN.md section 3, ' + pid},
        'level_note': m.LEVEL_NOTE,
        'technique': m.TECHNIQUE,
    })
man = {
    'version': 1,
    'setup_cmd': '(/venv/bin/python -c "import hypothesis" 2>/dev/null || /venv/bin/pip install --no-index --find-links /opt/veriftools/wheels hypothesis) && (PYTHONPATH=/verif/.deps /venv/bin/python -c "import atheris" 2>/dev/null || /venv/bin/pip install --no-index --quiet --find-links /opt/veriftools/wheels --target /verif/.deps atheris || true)',
    'hooks': {
        'guard': 'PYTORCH_WAVELETS_VERIF',
        'enable': 'no source hooks are needed: every observation point is a return value or a .grad; the checks import /repo\'s working tree freshly in new interpreters (PYTHONPATH=/repo, no byte-code cache)',
        'baseline_off_cmd': 'cd /repo && /venv/bin/python -m pytest -ra -q -p no:cacheprovider --timeout=900 --continue-on-collection-errors',
        'source_commits': [],
        'add_only': True,
    },
    'engines': [{
        'name': 'pwv-fuzz', 'path': 'pwv/fuzz.py',
        'serves_properties': ['C11', 'C12'],
        'kind_free_text': 'atheris (libFuzzer) coverage-guided fuzzing of the same run_case oracles, bytes decoded into the JSON case format; two campaigns are added to the thorough tier of C11 and C12 (secondary engine; skipped if atheris cannot be installed offline)',
    }, {
        'name': 'pwv', 'path': 'pwv/',
        'serves_properties': [c['property_id'] for c in checks],
        'kind_free_text': 'Hypothesis-driven property-based testing (structured generators, stateful machines for histories, bounded shrinking to replay files) against explicit oracles: PyWavelets, the NumPy dtcwt reference, operator extraction, autograd-vs-forward-matrix adjoint tests, metamorphic relations; sharded over fresh interpreters',
    }],
    'checks': checks,
    'not_applicable': na,
    'notes': 'Exit codes: 0 held (KNOWN-FINDING lines possible), 1 VIOLATION, 2 harness error. Known findings: known_findings.json. Repaired defects are "fix:" commits in /repo listed under "fixed" there. See DESIGN.md.',
}
with open(os.path.join(VERIF, 'MANIFEST.json'), 'w') as f:
    json.dump(man, f, indent=1)
print('checks:', [c['property_id'] for c in checks], 'n/a:', [x['property_id'] for x in na])
