#!/bin/sh
# tools/selftest.sh [name-prefix] : run every mutant in mutants/index.json against the quick check of each property
# it lists, expecting exit 1 with a VIOLATION line. Prints a kill table; exits 1 if a mutant survives.
cd "$(dirname "$0")/.."
PFX="$1"
python3 - "$PFX" <<'PY'
import json, subprocess, sys, os
pfx = sys.argv[1] if len(sys.argv) > 1 else ''
idx = json.load(open('mutants/index.json'))
jobs = [(m, p) for m, v in sorted(idx.items()) if m.startswith(pfx) for p in v['props']]
surv = []
from concurrent.futures import ThreadPoolExecutor
def run(job):
    m, p = job
    env = dict(os.environ, PWV_SHARDS='4')
    r = subprocess.run(['tools/mut.sh', 'mutants/%s.patch' % m, p], capture_output=True, text=True, env=env)
    out = r.stdout
    killed = 'VIOLATION property=%s' % p in out and 'exit=1' in out
    first = [l for l in out.splitlines() if 'violation bucket' in l][:1]
    return m, p, killed, (first[0].strip()[:150] if first else out.strip().splitlines()[-1][:150] if out.strip() else r.stderr[-150:])
with ThreadPoolExecutor(4) as ex:
    for m, p, killed, info in ex.map(run, jobs):
        print('%-28s %-4s %-8s %s' % (m, p, 'KILLED' if killed else 'SURVIVED', info), flush=True)
        if not killed:
            surv.append((m, p))
print('%d/%d killed' % (len(jobs) - len(surv), len(jobs)))
sys.exit(1 if surv else 0)
PY
