"""Regenerate section 7 of DESIGN.md (between the markers) from mutants/ and seeded/."""
import glob, json, os, re
V = os.path.dirname(os.path.dirname(os.path.abspath(__file__)))
idx = json.load(open(os.path.join(V, 'mutants', 'index.json')))
res = {}
p = os.path.join(V, 'mutants', 'selftest_result.txt')
if os.path.exists(p):
    for l in open(p):
        m = re.match(r'(\S+)\s+(C\d\d)\s+(KILLED|SURVIVED)', l)
        if m:
            res[(m.group(1), m.group(2))] = m.group(3)
out = []
out.append('## 7. Sensitivity: which checks catch which changes\n')
out.append('Everything in this section was measured, not assumed: every change was applied to a scratch copy of `/repo` '
           '(never to `/repo` itself), the quick tier of the named check was run against it with `PWV_REPO=<scratch>` '
           '(`tools/mut.sh`, `tools/seed_verify.sh`, `tools/seed_recheck.sh`), and the scratch copy was deleted.\n')
out.append('### 7.1 Hand-written mutants (`mutants/*.patch`, runner `tools/selftest.sh`)\n')
out.append('These are sensitivity probes written by the author of the checks; they are not required to pass the pinned '
           'tests. Result column: quick tier, seed 1, 4 shards (`mutants/selftest_result.txt`).\n')
out.append('| mutant | what it changes | expected to be caught by | result |')
out.append('|---|---|---|---|')
nk = ns = 0
for name in sorted(idx):
    v = idx[name]
    rs = []
    for c in v['props']:
        st = res.get((name, c), 'not run')
        rs.append('%s %s' % (c, st.lower()))
        nk += st == 'KILLED'
        ns += st == 'SURVIVED'
    out.append('| `%s` | %s | %s | %s |' % (name, v['descr'].replace('|', '/'), ', '.join(v['props']), '; '.join(rs)))
out.append('\n%d mutant x check pairs killed, %d survived.\n' % (nk, ns))
out.append('### 7.2 Changes seeded by independent sub-agents (`seeded/<ID>-<i>/`)\n')
out.append('Each was produced by a fresh sub-agent that saw only the text of one property and a scratch worktree of the '
           'library (nothing from `/verif`), and was asked for a realistic change that breaks the property, needs something '
           'specific to manifest, and keeps the pinned tests green. Kept only after confirming here: `demo.py` exits 0 on a '
           'clean copy and 1 with `patch.diff`; the 241 baseline tests still pass with the patch (`tests.txt`); then the '
           'checks were run (`meta.json` has the details). Suffix -1/-2: first round (two changes per property); -3: second '
           'round, run after the first round had been used to strengthen the checks, with the first-round ideas excluded; -4: third round; -5: fourth round; -6: fifth round; -7: sixth round; -8: seventh round; -9: eighth round; -10: last short round of the earlier session (eight properties); the tenth round (all 19 properties, next free index each: -10 or -11) was run in a later session against the finished checks.\n')
out.append('| id | change (agent\'s summary) | needs | caught by | note |')
out.append('|---|---|---|---|---|')
tot = first = 0
r2tot = r2first = 0
r3tot = r3first = 0
r4tot = r4first = 0
r5tot = r5first = 0
r6tot = r6first = 0
r7tot = r7first = 0
r8tot = r8first = 0
r9tot = r9first = 0
r10tot = r10first = 0
ROUND10 = set('C01-10 C02-10 C03-10 C04-11 C05-11 C06-11 C07-10 C08-10 C09-11 C10-10 C11-10 C12-11 C13-10 C14-11 C15-11 C16-11 C17-10 C18-10 C19-10'.split())
for d in sorted(glob.glob(os.path.join(V, 'seeded', 'C*-*'))):
    mp = os.path.join(d, 'meta.json')
    if not os.path.exists(mp):
        continue
    m = json.load(open(mp))
    name = os.path.basename(d)
    note = m.get('history', '')
    tot += 1
    missed_first = note.startswith('missed') or note.startswith('not caught') or note.startswith('arrived')
    first += not missed_first
    if name.endswith('-3'):
        r2tot += 1
        r2first += not missed_first
    if name.endswith('-4'):
        r3tot += 1
        r3first += not missed_first
    if name.endswith('-5'):
        r4tot += 1
        r4first += not missed_first
    if name.endswith('-6'):
        r5tot += 1
        r5first += not missed_first
    if name.endswith('-7'):
        r6tot += 1
        r6first += not missed_first
    if name.endswith('-8'):
        r7tot += 1
        r7first += not missed_first
    if name.endswith('-9'):
        r8tot += 1
        r8first += not missed_first
    if name in ROUND10:
        r10tot += 1
        r10first += not missed_first
    elif name.endswith('-10'):
        r9tot += 1
        r9first += not missed_first
    out.append('| %s | %s | %s | %s | %s |' % (name, m.get('summary', '')[:230].replace('|', '/').replace('\n', ' '),
                                          m.get('needs_to_manifest', '')[:160].replace('|', '/').replace('\n', ' '),
                                          ', '.join(m.get('caught_by', [])) or '—', note.replace('|', '/')))
out.append('\nOf %d seeded changes %d were caught by the target property\'s check as it stood when the change arrived; '
           'every miss led to a generator or oracle extension (never to a loosened check), after which all are caught '
           '(two of them by the neighbouring property that owns the behaviour, see notes). Caught on arrival per round: '
           'second %d of %d, third %d of %d, fourth %d of %d, fifth %d of %d, sixth %d of %d, seventh %d of %d, eighth %d of %d (two of its sub-agents ended without a result and were re-run), a last short round on the eight most-missed properties %d of %d, tenth round (all 19 properties) %d of %d (each round was asked to avoid all mechanisms of the '
           'earlier rounds, so later rounds probe ever more remote corners: data-dependent shortcuts, histories through '
           'load_state_dict, aliasing of constructor arguments, batches of millions of samples, autograd / train-eval modes, option containers, process-wide switches, single-orientation images, odd tap counts, memory layouts of leaves, same-name wavelet objects, class-level shared state, default-dtype-dependent loaders).\n'
           % (tot, first, r2first, r2tot, r3first, r3tot, r4first, r4tot, r5first, r5tot, r6first, r6tot, r7first, r7tot, r8first, r8tot, r9first, r9tot, r10first, r10tot))
# 7.3 behaviour-preserving refactorings
rp = os.path.join(V, 'refactorings', 'results.txt')
if os.path.exists(rp):
    lines = [l.split() for l in open(rp) if l.strip()]
    nok = sum(1 for l in lines if l[-1] == 'ok')
    out.append('### 7.3 Behaviour-preserving refactorings (`refactorings/<area>/refactorN.diff`): do the checks stay quiet?\n')
    out.append('Six further sub-agents (again without access to `/verif`) each wrote three substantial refactorings of one area '
               'that must not change any observable behaviour - restructured control flow, extracted / renamed / removed internal '
               'helpers and changed their signatures, equivalent conv / padding / indexing formulations, re-ordered floating-point '
               'operations (results differ in the last bits), modernised API usage - and verified them with their own differential '
               'harness against HEAD. The quick tier of every relevant check was then run against each of the 18 refactorings '
               '(`tools/refac_check.sh`, results in `refactorings/results.txt`): **%d of %d check runs exit 0, no VIOLATION and no '
               'harness error**. (Before this experiment the "only moved / unchanged" relations of C12 and C15 were strictly '
               'bitwise; they now tolerate and count up to 64 ulp so that a legitimate re-ordering between two code paths is '
               'not an alarm; C18 no longer demands that `biort()` rejects the legacy tables; C08 accepts any distribution of '
               'the repeated border rows before reporting a value mismatch.)\n' % (nok, len(lines)))
    out.append('| area | refactoring | FP order changed | internal API changed | checks run | result |')
    out.append('|---|---|---|---|---|---|')
    for area in sorted(os.listdir(os.path.join(V, 'refactorings'))):
        mp = os.path.join(V, 'refactorings', area, 'meta.json')
        if not os.path.exists(mp):
            continue
        for m in json.load(open(mp)):
            f = m.get('file', '')
            runs = [l for l in lines if l[0] == '%s/%s' % (area, f)]
            out.append('| %s | %s: %s | %s | %s | %s | %s |' % (
                area, f, str(m.get('summary', ''))[:200].replace('|', '/').replace('\n', ' '), m.get('fp_order_changed'),
                m.get('internal_api_changed'), ' '.join(l[1] for l in runs),
                'all ok' if runs and all(l[-1] == 'ok' for l in runs) else 'SEE results.txt'))
    out.append('')
text = '\n'.join(out) + '\n'
p = os.path.join(V, 'DESIGN.md')
s = open(p).read()
B, E = '<!-- section7:begin -->', '<!-- section7:end -->'
if B in s:
    s = s[:s.index(B)] + B + '\n' + text + E + s[s.index(E) + len(E):]
else:
    s = s.rstrip('\n') + '\n\n---------------------------------------------------------------------------------------------\n\n' + B + '\n' + text + E + '\n'
open(p, 'w').write(s)
print('section 7: %d mutants, %d seeded' % (len(idx), tot))
