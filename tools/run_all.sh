#!/bin/sh
# tools/run_all.sh <tier> [seed] : run every registered check once, print a one-line summary each
cd "$(dirname "$0")/.."
TIER="${1:-quick}"; export VERIF_SEED="${2:-1}"
for i in 01 02 03 04 05 06 07 08 09 10 11 12 13 14 15 16 17 18 19; do
  S=$(date +%s)
  ./check C$i --tier "$TIER" > .work/all_C$i.log 2>&1; RC=$?
  E=$(( $(date +%s) - S ))
  echo "C$i exit=$RC ${E}s $(head -1 .work/all_C$i.log | cut -c1-160)"
  if [ $RC -ne 0 ]; then grep -E "VIOLATION|HARNESS|violation bucket|minimal case" .work/all_C$i.log | cut -c1-400 | head -8; fi
done
